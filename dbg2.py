import sys, json, collections
from vf import progcheck, terms as T
from vf.checks import c01
cases = c01.enumerate_cases("quick", 0)
want = sys.argv[1]
seen = collections.Counter()
for c in cases[::int(sys.argv[2]) if len(sys.argv)>2 else 5]:
    r = progcheck.run_c_program(c["outs"])
    if r["outcome"].startswith(want):
        k = json.dumps(r.get("reject") or r.get("note"))
        seen[k] += 1
        if seen[k] <= 2:
            print(r["outcome"], k, json.dumps(c["outs"])[:300])
print(seen)
