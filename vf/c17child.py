"""Child interpreter for C17 (own PYTHONHASHSEED, own allocation history).

  python -m vf.c17child  < request.json  > one JSON line

request: {"programs": [{"kind": "array", "outs": [[name, term], ...]} | {"kind": "dist", "prog": {...}}],
          "junk": n, "reverse": bool, "texts": bool}
reply:   {"results": [{"loopy": digest, "c": digest, "py": digest, "twice": {...}} ...]}  in request order
"""
from __future__ import annotations

import hashlib
import json
import re
import sys
import warnings

warnings.filterwarnings("ignore")

_ADDR = re.compile(r"0x[0-9a-fA-F]{6,}")


def digest(text):
    return hashlib.md5(text.encode()).hexdigest()


def _exc(e):
    return f"EXC:{type(e).__name__}:{_ADDR.sub('0x?', str(e))[:160]}"


def describe_kernel(t_unit):
    """order-preserving description of the translation unit from its fields (not loopy's pretty-printer, whose
    own iteration orders are not pytato's): ordered collections stay in order, unordered (frozenset) fields are sorted"""
    lines = []
    for name in sorted(t_unit.callables_table):
        clbl = t_unit.callables_table[name]
        knl = getattr(clbl, "subkernel", None)
        if knl is None:
            lines.append(f"callable {name}: {type(clbl).__name__}")
            continue
        lines.append(f"kernel {knl.name} (entrypoint: {name in t_unit.entrypoints})")
        for a in knl.args:
            lines.append(f"  arg {a.name}: {type(a).__name__} dtype={getattr(a, 'dtype', None)} shape={getattr(a, 'shape', None)} "
                         f"out={getattr(a, 'is_output', None)} in={getattr(a, 'is_input', None)} order={getattr(a, 'order', None)} "
                         f"tags={sorted(map(repr, getattr(a, 'tags', ()) or ()))}")
        for d in knl.domains:
            lines.append(f"  domain {d}")
        for n, tv in knl.temporary_variables.items():
            lines.append(f"  temp {n}: dtype={tv.dtype} shape={tv.shape} aspace={tv.address_space} init={tv.initializer is not None} "
                         f"ro={tv.read_only} tags={sorted(map(repr, tv.tags or ()))}")
        for n, rule in knl.substitutions.items():
            lines.append(f"  subst {n}({', '.join(rule.arguments)}) := {rule.expression}")
        for insn in knl.instructions:
            lhs = getattr(insn, "assignees", None)
            rhs = getattr(insn, "expression", None)
            lines.append(f"  insn {insn.id}: {lhs} = {rhs}  within={sorted(insn.within_inames)} deps={sorted(insn.depends_on)} "
                         f"preds={sorted(map(str, insn.predicates))} tags={sorted(map(repr, insn.tags or ()))}")
        lines.append(f"  iname tags {sorted((n, sorted(map(repr, i.tags))) for n, i in knl.inames.items())}")
        lines.append(f"  assumptions {knl.assumptions}")
    return "\n".join(lines)


def _build(outs):
    import pytato as pt
    from vf import progcheck
    if isinstance(outs, str):
        from vf import dagfam
        g = {n: b for n, b, _d in dagfam.all_graphs("thorough")}[outs]()
        if isinstance(g, pt.Array):
            g = pt.make_dict_of_named_arrays({"out": g})
        try:
            g = pt.inline_calls(pt.tag_all_calls_to_be_inlined(g))
        except Exception:  # noqa: BLE001
            pass
        return g
    _b, named = progcheck.build_outputs(outs)
    return pt.make_dict_of_named_arrays(named)


def gen_array_program(outs):
    """-> {"loopy": text, "c": text, "py": text} (or "EXC:..." per artefact); outs: term outputs or a dagfam graph name"""
    import pytato as pt
    from vf import cexec, pyexec
    res = {}
    try:
        dag = _build(outs)
    except Exception as e:  # noqa: BLE001
        return {"loopy": "BUILD-" + _exc(e), "c": "BUILD-" + _exc(e), "py": "BUILD-" + _exc(e)}
    try:
        bp = pt.generate_loopy(dag, target=cexec.VerifCTarget(), function_name="_pt_kernel")
        t_unit = bp.program
        res["loopy"] = describe_kernel(t_unit)
        res["args"] = repr([(k, getattr(v, "shape", None)) for k, v in bp.bound_arguments.items()])
        try:
            res["c"] = cexec.device_code(t_unit)
        except Exception as e:  # noqa: BLE001
            res["c"] = _exc(e)
    except Exception as e:  # noqa: BLE001
        res["loopy"] = res["c"] = _exc(e)
    try:
        pp = pyexec.generate(_build(outs))
        res["py"] = pp.program + "\n# bound: " + repr(sorted(pp.bound_arguments)) + "\n# expected: " + repr(sorted(pp.expected_arguments))
    except Exception as e:  # noqa: BLE001
        res["py"] = _exc(e)
    return res


def gen_dist_program(prog):
    """-> {"partition": text (all ranks), "tags": text}"""
    from vf import distchild, distrun
    res = {}
    try:
        out = distrun.partition_all(prog, verify=False)
        lines, tags = [], []
        for r in range(prog["R"]):
            st = out["status"][r]
            if st[0] != "ok":
                lines.append(f"rank {r}: {st[0]} {_exc(st[1]) if st[0] == 'exc' else st[1]}")
                continue
            lines.append(f"rank {r} (symbolic tags)\n" + distchild.partition_summary(st[1]["unnumbered"]))
            lines.append(f"rank {r} (numbered)\n" + distchild.partition_summary(st[1]["partition"]))
            tags.append(f"rank {r} next_tag {st[1]['next_tag']}")
            part = st[1]["partition"]
            for pid, p in part.parts.items():
                tags.append(f"  part {pid!r} recv tags {[distchild.tag_repr(rv.comm_tag) for rv in p.name_to_recv_node.values()]!r} send tags "
                            f"{[[distchild.tag_repr(s.comm_tag) for s in ss] for ss in p.name_to_send_nodes.values()]!r}")
        res["partition"] = "\n".join(lines)
        res["tags"] = "\n".join(tags)
        if prog.get("partcode"):
            # the code pytato generates for every part (generate_code_for_partition, harness C target substituted)
            import pytato as pt
            from pytato.distributed.execute import generate_code_for_partition
            from vf import cexec
            texts = []
            orig = pt.generate_loopy
            pt.generate_loopy = lambda d, **kw: orig(d, target=cexec.VerifCTarget(), **kw)
            try:
                for r in range(prog["R"]):
                    st = out["status"][r]
                    if st[0] != "ok":
                        continue
                    try:
                        bound = generate_code_for_partition(st[1]["partition"])
                        for pid in st[1]["partition"].parts:
                            b = bound[pid]
                            texts.append(f"rank {r} part {pid!r}\n" + describe_kernel(b.program)
                                         + "\nbound: " + repr(sorted(b.bound_arguments)) + "\n" + cexec.device_code(b.program))
                    except Exception as e:  # noqa: BLE001
                        texts.append(f"rank {r}: {_exc(e)}")
            finally:
                pt.generate_loopy = orig
            res["partcode"] = "\n".join(texts)
    except Exception as e:  # noqa: BLE001
        res["partition"] = res["tags"] = _exc(e)
    return res


def main():
    import vf  # noqa: F401
    req = json.loads(sys.stdin.read())
    progs = req["programs"]
    order = list(range(len(progs)))
    if req.get("reverse"):
        order.reverse()
    junk_keep = []
    if req.get("junk"):
        # a different allocation history: other graphs built (some kept alive, some discarded) first
        import numpy as np
        import pytato as pt
        for i in range(req["junk"]):
            a = pt.make_placeholder(f"junk{i}", (i % 5 + 1, 3), np.float64)
            e = (a + i) @ pt.make_data_wrapper(np.ones((3, 2)))
            if i % 3 == 0:
                junk_keep.append(e)
        try:
            pt.generate_loopy(junk_keep[0])
        except Exception:  # noqa: BLE001
            pass
        # ... including graphs that went through both code generators and were then discarded (whatever a generator
        # remembers about a dead graph must not leak into a later one)
        import gc
        from vf import pyexec
        specs = [("ij,jk->ik", [(3, 3), (3, 3)]), ("ij,kj->ik", [(3, 3), (3, 3)]), ("ij->ji", [(3, 3)]), ("ij,ij->i", [(3, 3), (3, 3)]),
                 ("ji,jk->ik", [(3, 3), (3, 3)]), ("ij,jk->ki", [(3, 3), (3, 3)]), ("ij,ik->jk", [(3, 3), (3, 3)]), ("ii->i", [(3, 3)]),
                 ("ij,j->i", [(3, 3), (3,)]), ("i,i->", [(3,), (3,)]), ("ij->j", [(3, 3)]), ("ij,jk,lk->il", [(3, 3), (3, 3), (3, 3)])]
        for i in range(req["junk"] * 3):
            k = i % len(specs)
            outs_ = {}
            for io, (sp, shapes) in enumerate(specs[k:] + specs[:k]):
                args_ = [pt.make_placeholder(f"j{io}_{j}", sh, np.float64) for j, sh in enumerate(shapes)]
                outs_[f"w{io}"] = pt.einsum(sp, *args_)
            try:
                pyexec.generate(pt.make_dict_of_named_arrays(outs_))
            except Exception:  # noqa: BLE001
                pass
            del outs_, args_
            if i % 3 == 0:
                gc.collect()
    if any(p["kind"] == "dist" for p in progs):
        from vf import distrun
        distrun.install_fake_mpi()
    results = [None] * len(progs)
    for i in order:
        p = progs[i]
        fn = (lambda p=p: gen_array_program(p["outs"])) if p["kind"] == "array" else (lambda p=p: gen_dist_program(p["prog"]))
        first = fn()
        second = fn()
        item = {k: digest(v) if not v.startswith(("EXC:", "BUILD-EXC:")) else v for k, v in first.items()}
        item["twice_differs"] = sorted(k for k in first if first[k] != second.get(k))
        if req.get("texts"):
            item["texts"] = first
            item["texts2"] = second
        results[i] = item
    # programs marked "late" are produced once more at the end of the process, after everything else was built, generated
    # and discarded: the text must still be the one produced first
    import gc
    gc.collect()
    for rep in range(3):
        for i in order:
            p = progs[i]
            if not p.get("late") or p["kind"] != "array":
                continue
            again = gen_array_program(p["outs"])
            for k, v in again.items():
                dv = digest(v) if not v.startswith(("EXC:", "BUILD-EXC:")) else v
                if dv != results[i].get(k) and k not in results[i]["twice_differs"]:
                    results[i]["twice_differs"] = sorted(set(results[i]["twice_differs"]) | {k})
        gc.collect()
    sys.stdout.write(json.dumps({"results": results}) + "\n")


if __name__ == "__main__":
    main()
