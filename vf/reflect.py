"""Reflective walk over pytato object graphs via dataclass fields (DESIGN §2).

Independent of pytato's own mappers: children are discovered by looking at the
values of `dataclasses.fields(node)` (plus the two classes that keep their
children outside of fields).  Used as the *model* for C04, C05, C13, C18, C20.
"""
from __future__ import annotations

import dataclasses
import hashlib
from collections.abc import Mapping

import numpy as np


def is_node(obj) -> bool:
    """objects that form the expression graph"""
    import pytato as pt
    from pytato.function import FunctionDefinition
    from pytato.array import SparseMatrix
    return isinstance(obj, (pt.Array, pt.AbstractResultWithNamedArrays, FunctionDefinition,
                            pt.DistributedSend, SparseMatrix))


def is_array(obj) -> bool:
    import pytato as pt
    return isinstance(obj, pt.Array)


def raw_fields(node):
    """[(field name, value)] — dataclass fields, or the known non-dataclass storage"""
    import pytato as pt
    if dataclasses.is_dataclass(node):
        res = [(f.name, getattr(node, f.name)) for f in dataclasses.fields(node)]
        return res
    raise TypeError(f"not a dataclass node: {type(node).__name__}")


def iter_values(val, path=()):
    """flatten containers: yields (path, leaf value)"""
    if is_node(val):
        yield path, val      # result containers are Mappings themselves: they are nodes, not containers
    elif isinstance(val, Mapping):
        for k in val:  # insertion order
            yield from iter_values(val[k], (*path, ("key", k)))
    elif isinstance(val, (tuple, list)):
        for i, v in enumerate(val):
            yield from iter_values(v, (*path, ("idx", i)))
    elif isinstance(val, frozenset) and any(is_node(v) for v in val):
        for v in sorted(val, key=id):
            yield from iter_values(v, (*path, ("set",)))
    elif _is_normalized_slice(val):
        for nm in ("start", "stop", "step"):
            yield from iter_values(getattr(val, nm), (*path, ("slice", nm)))
    else:
        yield path, val


def _is_normalized_slice(v):
    from pytato.array import NormalizedSlice
    return isinstance(v, NormalizedSlice)


def child_edges(node):
    """[(edge label, child node)] with multiplicity, in field order.
    edge label = (field name, path inside the field)"""
    res = []
    for name, val in raw_fields(node):
        for path, leaf in iter_values(val):
            if is_node(leaf):
                res.append(((name, path), leaf))
    return res


def children(node):
    return [c for _, c in child_edges(node)]


def array_children(node):
    """direct array-valued dependencies of an array node, looking through the
    non-array carriers (CSR matrix, send, dict/call containers are nodes too)"""
    return children(node)


def walk(roots):
    """all nodes reachable (by identity), children before parents; each object once"""
    seen = {}
    order = []

    def rec(n):
        if id(n) in seen:
            return
        seen[id(n)] = n
        for c in children(n):
            rec(c)
        order.append(n)
    import sys
    old = sys.getrecursionlimit()
    sys.setrecursionlimit(max(old, 20000))
    try:
        for r in (roots if isinstance(roots, (list, tuple)) else [roots]):
            rec(r)
    finally:
        sys.setrecursionlimit(old)
    return order


def tag_repr(t):
    return f"{type(t).__module__}.{type(t).__qualname__}:{t!r}"


def _leaf_canon(v, opts):
    import pytato as pt
    from pytools.tag import Tag
    if isinstance(v, np.dtype):
        return ("dtype", v.str)
    if isinstance(v, type):
        return ("type", v.__module__ + "." + v.__qualname__)
    if isinstance(v, np.ndarray):
        return ("ndarray", v.dtype.str, v.shape, hashlib.md5(np.ascontiguousarray(v).tobytes()).hexdigest())
    if isinstance(v, (bool, int, float, complex, str, bytes, type(None))):
        return (type(v).__name__, repr(v))
    if isinstance(v, np.generic):
        return ("npscalar", v.dtype.str, repr(v.item()))
    if isinstance(v, frozenset):
        items = [_leaf_canon(x, opts) for x in v]
        if opts.get("tags", True) is False and all(isinstance(x, Tag) for x in v):
            return ("tags-erased",)
        return ("frozenset", tuple(sorted(items, key=repr)))
    if isinstance(v, Tag):
        if opts.get("tags", True) is False:
            return ("tag-erased",)
        return ("tag", tag_repr(v))
    if isinstance(v, (pt.Axis, pt.ReductionDescriptor)):
        if opts.get("tags", True) is False:
            return (type(v).__name__,)
        return (type(v).__name__, tuple(sorted(tag_repr(t) for t in v.tags)))
    if dataclasses.is_dataclass(v) and not isinstance(v, type):
        return (type(v).__name__, tuple((f.name, _leaf_canon(getattr(v, f.name), opts))
                                        for f in dataclasses.fields(v)))
    # pymbolic expressions, reduction ops, loopy translation units, enums, …
    try:
        import loopy as lp
        if isinstance(v, lp.TranslationUnit):
            return ("t_unit", hashlib.md5(str(v).encode()).hexdigest())
    except ImportError:
        pass
    return (type(v).__name__, _ADDR.sub("", repr(v)))


import re  # noqa: E402
_ADDR = re.compile(r" object at 0x[0-9a-f]+")


def scopes(roots):
    """[(scope owner or None, [nodes])]: the top-level graph and every function body, each walked
    without entering (other) function bodies -- a function body is a name space of its own"""
    from pytato.function import FunctionDefinition
    res = []
    pending = [(None, roots if isinstance(roots, (list, tuple)) else [roots])]
    seen_f = set()
    while pending:
        owner, rts = pending.pop()
        seen = {}
        order = []

        def rec(n):
            if id(n) in seen:
                return
            seen[id(n)] = n
            if isinstance(n, FunctionDefinition):
                if id(n) not in seen_f:
                    seen_f.add(id(n))
                    pending.append((n, list(n.returns.values())))
                order.append(n)
                return
            for c in children(n):
                rec(c)
            order.append(n)
        import sys
        old = sys.getrecursionlimit()
        sys.setrecursionlimit(max(old, 20000))
        try:
            for r in rts:
                rec(r)
        finally:
            sys.setrecursionlimit(old)
        res.append((owner, order))
    return res


def has_structural_duplicates(roots) -> bool:
    """two distinct array objects in one scope that pytato itself considers equal"""
    try:
        for _owner, nodes in scopes(roots):
            arrs = [n for n in nodes if is_array(n)]
            if len(set(arrs)) < len({id(n) for n in arrs}):
                return True
    except Exception:  # noqa: BLE001
        return False
    return False


def canon(roots, *, tags=True, sharing=True, skip_fields=("non_equality_tags",), data_identity=True):
    """canonical serialisation of the object graph.

    sharing=True : nodes are numbered by first visit (DFS, field order); a second
                   reference to the same *object* is a back-reference, so two
                   graphs have equal keys iff they are isomorphic as object graphs.
    sharing=False: pure tree expansion modulo memoisation on structure (two
                   structurally equal but distinct objects give the same key).
    tags=False   : all tags (array, axis, reduction descriptor) erased.
    """
    opts = {"tags": tags}
    number = {}
    data_no = {}
    memo = {}

    def rec(n):
        if sharing:
            if id(n) in number:
                return ("ref", number[id(n)])
            number[id(n)] = len(number)
        elif id(n) in memo:
            return memo[id(n)]
        parts = [type(n).__name__]
        for name, val in raw_fields(n):
            if name in skip_fields:
                continue
            if not tags and name == "tags":
                continue
            parts.append((name, cval(val)))
        r = tuple(parts)
        if not sharing:
            h = hashlib.md5(repr(r).encode()).hexdigest()
            memo[id(n)] = ("h", h)
            return memo[id(n)]
        return r

    def cval(val):
        if is_node(val):
            return rec(val)
        if isinstance(val, Mapping):
            return ("map", tuple((repr(k), cval(val[k])) for k in sorted(val, key=repr)))
        if isinstance(val, (tuple, list)):
            return ("seq", tuple(cval(v) for v in val))
        if _is_normalized_slice(val):
            return ("nslice", cval(val.start), cval(val.stop), cval(val.step))
        if isinstance(val, np.ndarray) and data_identity:
            if id(val) not in data_no:
                data_no[id(val)] = len(data_no)
            return ("data", data_no[id(val)], _leaf_canon(val, opts))
        return _leaf_canon(val, opts)
    import sys
    old = sys.getrecursionlimit()
    sys.setrecursionlimit(max(old, 20000))
    try:
        rs = roots if isinstance(roots, (list, tuple)) else [roots]
        return tuple(rec(r) for r in rs)
    finally:
        sys.setrecursionlimit(old)


def key(roots, **kw) -> str:
    return hashlib.md5(repr(canon(roots, **kw)).encode()).hexdigest()


def snapshot(roots):
    """(structural key, ids of all nodes, bytes+flags of wrapped data): to detect
    mutation of an argument graph"""
    import pytato as pt
    nodes = walk(roots)
    data = []
    for n in nodes:
        if isinstance(n, pt.DataWrapper) and isinstance(n.data, np.ndarray):
            data.append((id(n.data), n.data.tobytes(), n.data.flags.writeable, n.data.shape, n.data.dtype.str))
    return (key(roots), tuple(id(n) for n in nodes), tuple(data))
