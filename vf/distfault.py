"""Fault injection into multi-rank programs and the independent global well-formedness model (C10).

Faults rewrite the *terms* of a valid program of distspace; the model below classifies any program (faulted
or not) from its terms alone: it never looks at pytato.
"""
from __future__ import annotations

import copy
import itertools

from vf import distspace
from vf import terms as T

FAULT_KINDS = distspace.FAULT_KINDS


def _map_terms(t, fn):
    """bottom-up rewrite of every sub-term (lists whose head is a string)"""
    if isinstance(t, list):
        t2 = [_map_terms(x, fn) for x in t]
        if t2 and isinstance(t2[0], str):
            return fn(t2)
        return t2
    return t


def _walk(t, out):
    """pre-order walk that treats a tagged receive as one node (its inner untagged form is not a node of the graph)"""
    if isinstance(t, list):
        if t and t[0] == "tag" and isinstance(t[2], list) and t[2] and t[2][0] == "recv":
            out.append(["recv", t[2][1], t[2][2], t[2][3], t[2][4], t[1]])
            return
        if t and isinstance(t[0], str):
            out.append(t)
        for x in t:
            _walk(x, out)


def subterms(t):
    out = []
    _walk(t, out)
    return out


def value_subterms(t):
    """sub-terms the *value* of t depends on: a send holder contributes its passthrough data only"""
    out = []

    def walk(u):
        if isinstance(u, list):
            if u and u[0] == "tag" and isinstance(u[2], list) and u[2] and u[2][0] == "recv":
                out.append(["recv", u[2][1], u[2][2], u[2][3], u[2][4], u[1]])
                return
            if u and u[0] == "send":
                out.append(u)
                walk(u[4])
                return
            if u and isinstance(u[0], str):
                out.append(u)
            for x in u:
                walk(x)
    walk(t)
    return out


def comm_terms(prog):
    """-> sends [(rank, term)], recvs [(rank, term)] : distinct terms per rank (structural identity = node identity)"""
    sends, recvs = [], []
    for r in range(prog["R"]):
        seen_s, seen_r = set(), set()
        for _n, t in distspace_rank_outs(prog, r):
            for s in subterms(t):
                if s[0] == "send":
                    k = T.tkey(["send", s[1], s[2], s[3]])          # DistributedSend = (data, dest, tag)
                    if k not in seen_s:
                        seen_s.add(k)
                        sends.append((r, s))
                elif s[0] == "recv":
                    k = T.tkey(s)
                    if k not in seen_r:
                        seen_r.add(k)
                        recvs.append((r, s))
    return sends, recvs


def distspace_rank_outs(prog, r):
    rk = prog["ranks"]
    return rk[r]["outs"] if r in rk else rk[str(r)]["outs"]


def classify(prog):
    """independent global model -> sorted list of defect classes (empty = well-formed):
    self-send, self-recv, duplicate-send, duplicate-recv, missing-send, missing-recv, cycle"""
    sends, recvs = comm_terms(prog)
    defects = set()
    sid, rid = {}, {}
    for r, s in sends:
        if s[2] == r:
            defects.add("self-send")
        k = (r, s[2], T.tkey(s[3]))
        sid.setdefault(k, []).append(s)
    for r, s in recvs:
        if s[1] == r:
            defects.add("self-recv")
        k = (s[1], r, T.tkey(s[2]))
        rid.setdefault(k, []).append(s)
    if any(len(v) > 1 for v in sid.values()):
        defects.add("duplicate-send")
    if any(len(v) > 1 for v in rid.values()):
        defects.add("duplicate-recv")
    for k in rid:
        if k not in sid:
            defects.add("missing-send")
    for k in sid:
        if k not in rid:
            defects.add("missing-recv")
    # cycle among communication operations: message k depends on the messages received inside its payload
    dep = {}
    for r, s in sends:
        k = (r, s[2], T.tkey(s[3]))
        need = set()
        for u in value_subterms(s[1]):
            if u[0] == "recv":
                need.add((u[1], r, T.tkey(u[2])))
        dep.setdefault(k, set()).update(need)
    done, progress = set(), True
    while progress:
        progress = False
        for k, need in dep.items():
            if k not in done and all((n in done) or (n not in dep) for n in need):
                done.add(k)
                progress = True
    if len(done) != len(dep):
        defects.add("cycle")
    return sorted(defects)


def lacking_ranks(prog):
    """ranks on which an operation is missing: the source rank of a receive nobody sends to, the destination rank of a
    send nobody receives (these are the ranks on which find_distributed_partition is documented to raise)"""
    sends, recvs = comm_terms(prog)
    sid = {(r, s[2], T.tkey(s[3])) for r, s in sends}
    rid = {(s[1], r, T.tkey(s[2])) for r, s in recvs}
    res = set()
    for k in rid - sid:
        res.add(k[0])
    for k in sid - rid:
        res.add(k[1])
    return {r for r in res if 0 <= r < prog["R"]}


# --------------------------------------------------------------------------
# fault application

def fault_sites(prog):
    """every (kind, op index, variant) applicable to the program"""
    R = prog["R"]
    res = []
    for i, op in enumerate(prog["ops"]):
        others_d = [d for d in range(R) if d != op["dst"]]
        others_s = [s for s in range(R) if s != op["src"]]
        res.append(("drop-send", i, None))
        res.append(("drop-recv", i, None))
        res.append(("dup-send", i, "other-payload"))
        res.append(("dup-send", i, "same-payload"))
        res.append(("dup-send", i, "sibling"))
        res.append(("dup-send", i, "in-payload"))
        res.append(("dup-recv", i, None))
        res.append(("retag-send", i, None))
        res.append(("retag-recv", i, None))
        for d in others_d:
            res.append(("redirect-send" if d != op["src"] else "self-send", i, d))
        for s in others_s:
            res.append(("redirect-recv" if s != op["dst"] else "self-recv", i, s))
        res.append(("close-cycle", i, None))
    return res


def _is_op_send(t, op):
    return t[0] == "send" and t[2] == op["dst"] and t[3] == op["tag"]


def _is_op_recv(t, op):
    return t[0] == "recv" and t[1] == op["src"] and t[2] == op["tag"]


def apply_fault(prog, fault):  # noqa: C901
    """-> new program (deep copy) with the fault applied; 'faults' lists what was applied"""
    kind, i, var = fault
    p = copy.deepcopy(prog)
    op = p["ops"][i]
    src, dst = op["src"], op["dst"]
    newtag = op["tag"] + 50

    def rewrite(rank, fn):
        outs = distspace_rank_outs(p, rank)
        for k, (n, t) in enumerate(outs):
            outs[k] = [n, _map_terms(t, fn)]

    if kind == "drop-send":
        rewrite(src, lambda t: t[4] if _is_op_send(t, op) else t)
    elif kind == "drop-recv":
        rewrite(dst, lambda t: ["bin", "mul", distspace.inp(dst), ["py", 7.0]] if _is_op_recv(t, op) else t)
    elif kind == "dup-send":
        if var == "other-payload":
            rewrite(src, lambda t: ["send", ["bin", "add", t[1], ["py", 7.0]], t[2], t[3], t] if _is_op_send(t, op) else t)
        elif var == "same-payload":
            # the same send object stapled twice (onto different results): one send by value semantics
            rewrite(src, lambda t: ["send", t[1], t[2], t[3], ["bin", "mul", t, ["py", 1.0]]] if _is_op_send(t, op) else t)
        elif var == "in-payload":
            # the holder of a second, different send with the same id sits inside the payload of the first
            def fnp(t):
                if _is_op_send(t, op):
                    dup = ["send", ["bin", "add", t[1], ["py", 11.0]], t[2], t[3], distspace.inp(src)]
                    return ["send", ["bin", "add", t[1], ["bin", "mul", dup, ["py", 0.0]]], t[2], t[3], t[4]]
                return t
            rewrite(src, fnp)
        else:
            # a second, different send with the same id in a sibling sub-expression (not chained by passthrough)
            def fn(t):
                if _is_op_send(t, op):
                    return ["bin", "add", t, ["bin", "mul", ["send", ["bin", "add", t[1], ["py", 9.0]], t[2], t[3], distspace.inp(src)], ["py", 0.0]]]
                return t
            rewrite(src, fn)
    elif kind == "dup-recv":
        # a second, distinct receive node (tagged) with the same (source, tag), used next to the original
        outs = distspace_rank_outs(p, dst)
        n, t = outs[0]
        rv = distspace.recv_term(op)
        outs[0] = [n, ["bin", "add", t, ["bin", "mul", ["tag", ["user", "dup"], rv], ["py", 0.0]]]]
        if not any(_is_op_recv(s, op) for _n, tt in outs for s in T.all_subterms(tt)):
            return None
    elif kind == "retag-send":
        rewrite(src, lambda t: ["send", t[1], t[2], newtag, t[4]] if _is_op_send(t, op) else t)
    elif kind == "retag-recv":
        rewrite(dst, lambda t: ["recv", t[1], newtag, t[3], t[4]] if _is_op_recv(t, op) else t)
    elif kind in ("redirect-send", "self-send"):
        rewrite(src, lambda t: ["send", t[1], var, t[3], t[4]] if _is_op_send(t, op) else t)
    elif kind in ("redirect-recv", "self-recv"):
        rewrite(dst, lambda t: ["recv", var, t[2], t[3], t[4]] if _is_op_recv(t, op) else t)
    elif kind == "close-cycle":
        # new message dst -> src whose payload depends on message i, and on which message i's payload depends
        ktag = op["tag"] + 70
        back = ["recv", dst, ktag, distspace.SHAPE, distspace.DT]
        rewrite(src, lambda t: ["send", ["bin", "add", t[1], back], t[2], t[3], t[4]] if _is_op_send(t, op) else t)
        outs = distspace_rank_outs(p, dst)
        n, t = outs[0]
        outs[0] = [n, ["send", ["bin", "mul", distspace.recv_term(op), ["py", 3.0]], src, ktag, t]]
    else:
        raise ValueError(kind)
    p.setdefault("faults", []).append([kind, i, var])
    return p


def faulted_programs(prog, pairs=False):
    """[(faults, program)] -- single faults at every site; with pairs=True also all unordered pairs of faults
    at different (kind, site)"""
    res = []
    sites = fault_sites(prog)
    for f in sites:
        q = apply_fault(prog, f)
        if q is not None:
            res.append(([f], q))
    if pairs:
        for f, g in itertools.combinations(sites, 2):
            q = apply_fault(prog, f)
            if q is None:
                continue
            try:
                q2 = apply_fault(q, g)
            except Exception:  # noqa: BLE001
                continue
            if q2 is not None:
                res.append(([f, g], q2))
    return res
