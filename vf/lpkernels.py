"""Two hand-written loopy kernels for call_loopy nodes, with their NumPy meaning."""
from __future__ import annotations

import functools

import numpy as np


@functools.lru_cache(maxsize=None)
def kernel(name):
    import loopy as lp
    if name == "double":
        return lp.make_kernel(
            "{[i]: 0<=i<4}",
            "y[i] = 2*x[i]",
            [lp.GlobalArg("x", dtype=np.float64, shape=(4,)), lp.GlobalArg("y", dtype=np.float64, shape=(4,), is_output=True)],
            name="double", target=lp.CTarget(), lang_version=lp.MOST_RECENT_LANGUAGE_VERSION)
    if name == "axpy2":
        return lp.make_kernel(
            "{[i]: 0<=i<4}",
            """
            s[i] = a*x[i] + z[i]
            d[i] = x[i] - z[i]
            """,
            [lp.ValueArg("a", dtype=np.float64), lp.GlobalArg("x", dtype=np.float64, shape=(4,)),
             lp.GlobalArg("z", dtype=np.float64, shape=(4,)),
             lp.GlobalArg("s", dtype=np.float64, shape=(4,), is_output=True),
             lp.GlobalArg("d", dtype=np.float64, shape=(4,), is_output=True)],
            name="axpy2", target=lp.CTarget(), lang_version=lp.MOST_RECENT_LANGUAGE_VERSION)
    raise KeyError(name)


def np_meaning(name, vals):
    if name == "double":
        return {"y": 2 * np.asarray(vals["x"])}
    if name == "axpy2":
        x, z = np.asarray(vals["x"]), np.asarray(vals["z"])
        a = np.asarray(vals["a"])
        return {"s": a * x + z, "d": x - z}
    raise KeyError(name)


def eval_loopy_call(lc, vals):
    return np_meaning(lc.entrypoint, vals)


def call(name, **bindings):
    from pytato.loopy import call_loopy
    return call_loopy(kernel(name), dict(bindings), name)


# term interface: ["lpcall", name, {arg: term}]  and  ["lpout", lpcall-term, out-name]
def build_pt(builder, t):
    b = {}
    for k, v in sorted(t[2].items()):
        b[k] = builder(v)
    return call(t[1], **b)


def eval_np(ev, t):
    vals = {k: ev(v) for k, v in t[2].items()}
    return np_meaning(t[1], vals)
