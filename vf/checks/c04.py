"""C04 — equality and hashing are a sound structural congruence."""
from __future__ import annotations

import collections
import itertools
import os
import pickle
import tempfile
import warnings

from vf import procrun, progcheck, reflect

warnings.filterwarnings("ignore")

PROPERTY = "C04"
LEVEL = "exploration"
TECHNIQUE = ("bounded exhaustive enumeration: every node kind (discovered reflectively from a graph containing all of them) x "
             "every dataclass field x every mutation of a type-directed alphabet x every single-hole context of depth 1 "
             "and 2; all pairs / triples of the pool for reflexivity, symmetry, transitivity; all histories of length <=3 "
             "over {hash, in-process pickle round trip, round trip through a child interpreter with another hash seed, "
             "rebuild through the copy mapper}; child interpreters with PYTHONHASHSEED in {0,1,2,random}")
RULE = ("cases: one per base node (its rebuilt copy must be ==, hash-equal and found in sets/dicts; each single-field "
        "mutant must be != unless the field is non_equality_tags or only the insertion order of a mapping changed; the "
        "same at every nesting depth), one for the relation laws on the pool, one per child hash seed (unpickled == "
        "rebuilt, hashes equal within the child, no cached hash in the pickle), one for the histories; distinct = "
        "(node, field, mutation, context); non-trivial = comparison made")
ASSUMPTIONS = [
    "data wrappers have documented identity semantics: rebuilt copies keep the wrapper objects, and cross-process "
    "equality is claimed only for graphs without data wrappers",
    "mutations are produced by dataclasses.replace on the real node classes (their __post_init__ checks run)",
    "child interpreters rebuild the pool from the same deterministic builders (vf/nodepool.py)",
]
SEEDS = ["0", "1", "2", "random"]
SEEDS_THOROUGH = ["0", "1", "2", "3", "4", "5", "6", "7", "random"]


def _two_hole_contexts():
    import pytato as pt

    def arith(a, b):
        if a.dtype.kind == "b":
            return pt.logical_and(a, b)
        return a + b
    return [("binary-op", arith),
            ("stack", lambda a, b: pt.stack([a, b])),
            ("dict", lambda a, b: pt.make_dict_of_named_arrays({"k1": a, "k2": b})),
            ("where", lambda a, b: pt.where(pt.make_placeholder("cnd", a.shape, bool), a, b))]


class _Lazy(list):
    def __iter__(self):
        if not len(self):
            self.extend(_two_hole_contexts())
        return super().__iter__()


TWO_HOLE_CONTEXTS = _Lazy()


def bounds(tier):
    return {"hash_seeds": SEEDS if tier == "quick" else SEEDS_THOROUGH, "context_depth": 2, "history_length": 3 if tier == "quick" else 4}


def enumerate_cases(tier, seed):
    from vf import nodepool
    g, base = nodepool.base_nodes()
    cases = [{"what": "node", "label": label} for label, _ in base]
    cases.append({"what": "relations"})
    for s in (SEEDS if tier == "quick" else SEEDS_THOROUGH):
        cases.append({"what": "child", "seed": s})
    cases.append({"what": "histories", "maxlen": 3 if tier == "quick" else 4})
    return cases


def has_dw(x):
    import pytato as pt
    return any(isinstance(n, pt.DataWrapper) for n in reflect.walk(x))


def run_node(case):  # noqa: C901
    import pytato as pt
    from vf import nodepool
    g, base = nodepool.base_nodes()
    node = dict(base)[case["label"]]
    kind = type(node).__name__
    viol, keys = [], []
    n = 0

    def V(k, msg, **sig):
        viol.append({"sig": {"kind": k, "node": kind, **sig}, "msg": f"{case['label']}: {msg}"})
    # rebuilt copy
    rb = nodepool.rebuilt(node)
    if rb is node and not isinstance(node, pt.DataWrapper):
        V("harness", "rebuilt copy is the same object")
    try:
        if not (rb == node and node == rb):
            V("rebuilt-not-equal", "independently rebuilt copy compares unequal")
        if hash(rb) != hash(node):
            V("rebuilt-hash-differs", "rebuilt copy hashes differently")
        if rb not in {node} or node not in {rb: 1}:
            V("rebuilt-not-found-in-set", "rebuilt copy is not found in a set/dict containing the original")
        if node != node or not (node == node):
            V("not-reflexive", "node != itself")
    except Exception as e:  # noqa: BLE001
        V("exception", progcheck.exc_msg("compare rebuilt", e), where=progcheck.exc_site(e))
    n += 1
    # single-field mutants, at depth 0, 1, 2
    ms, cannot = nodepool.mutants(node)
    mutated_fields = {f for f, _d, _m, _e in ms}
    for f, why in cannot:
        if f not in mutated_fields:     # (an alternative the constructor refuses is fine as long as the field has others)
            V("field-without-mutation", f"field {f}: {why}", field=f)
    ctxs = nodepool.contexts()
    for f, d, m, eq_expected in ms:
        n += 1
        keys.append([case["label"], f, d])
        try:
            e1, e2 = (m == node), (node == m)
        except Exception as e:  # noqa: BLE001
            V("exception", f"field {f} [{d}]: " + progcheck.exc_msg("compare mutant", e), field=f, where=progcheck.exc_site(e))
            continue
        if e1 != e2:
            V("not-symmetric", f"field {f} [{d}]: mutant==node is {e1} but node==mutant is {e2}", field=f)
        if eq_expected:
            if not e1:
                V("irrelevant-change-breaks-equality", f"field {f} [{d}]: must stay equal", field=f)
            elif hash(m) != hash(node):
                V("equal-but-hash-differs", f"field {f} [{d}]: equal nodes, different hashes", field=f)
            continue
        if e1:
            V("eq-ignores-field", f"field {f} changed ({d}) but the nodes still compare equal "
              f"(hash equal: {hash(m) == hash(node)})", field=f.split("[")[0])
            continue
        # two-hole contexts: one side uses the *same object* in both holes (real sharing), the other side an equal copy in
        # one hole and the differing node in the other -- a comparison that remembers verdicts per left operand only, or
        # per hole, must not be fooled in either direction or hole order
        try:
            same_shape = isinstance(node, pt.Array) and isinstance(m, pt.Array) and node.shape == m.shape
        except Exception:  # noqa: BLE001
            same_shape = False      # (a mutant whose derived shape cannot be computed cannot be embedded)
        if same_shape:
            for (c2n, c2h) in TWO_HOLE_CONTEXTS:
                try:
                    shared = c2h(node, node)
                    others = [("copy,mutant", c2h(rb, m)), ("mutant,copy", c2h(m, rb))]
                except Exception:  # noqa: BLE001
                    continue
                for how, other in others:
                    n += 1
                    try:
                        l2r, r2l = (shared == other), (other == shared)
                    except Exception as e:  # noqa: BLE001
                        V("exception", f"two-hole context {c2n}: " + progcheck.exc_msg("compare", e), where=progcheck.exc_site(e))
                        continue
                    if l2r or r2l:
                        V("shared-operand-hides-difference", f"field {f} [{d}] differs, yet {c2n}(node, node) == {c2n}({how}) is {l2r}, "
                          f"reversed {r2l}", context=c2n)
                try:
                    eqc = c2h(rb, nodepool.rebuilt(node))
                    if not (shared == eqc and eqc == shared and hash(shared) == hash(eqc)):
                        V("sharing-breaks-equality", f"{c2n}(node, node) != {c2n}(copy, other copy) or hashes differ", context=c2n)
                except Exception:  # noqa: BLE001
                    pass
        # congruence under contexts (only array nodes can be embedded)
        if isinstance(node, pt.Array) and isinstance(m, pt.Array):
            for (c1n, c1) in ctxs:
                try:
                    a1, b1 = c1(node), c1(m)
                except Exception:  # noqa: BLE001
                    continue
                n += 1
                try:
                    if a1 == b1:
                        V("context-hides-difference", f"field {f} [{d}] differs, yet {c1n}(node) == {c1n}(mutant)", field=f.split("[")[0], context=c1n)
                    rb1 = c1(rb)
                    if not has_dw(node) or True:
                        if not (rb1 == a1) or hash(rb1) != hash(a1):
                            V("context-breaks-equality", f"{c1n}(rebuilt) != {c1n}(node) or hashes differ", context=c1n)
                except Exception as e:  # noqa: BLE001
                    V("exception", f"context {c1n}: " + progcheck.exc_msg("compare in context", e), where=progcheck.exc_site(e))
                    continue
                if not isinstance(a1, pt.Array):
                    continue
                for (c2n, c2) in ctxs[:5]:
                    try:
                        a2, b2 = c2(a1), c2(b1)
                    except Exception:  # noqa: BLE001
                        continue
                    n += 1
                    try:
                        if a2 == b2:
                            V("context-hides-difference", f"field {f} [{d}]: {c2n}({c1n}(.)) equal", field=f.split("[")[0], context=c2n + "." + c1n)
                    except Exception as e:  # noqa: BLE001
                        V("exception", progcheck.exc_msg("compare depth 2", e), where=progcheck.exc_site(e))
    # in-process pickle round trip
    try:
        hash(node)
        data = pickle.dumps(node)
        back = pickle.loads(data)
        if any("_hash_value" in getattr(x, "__dict__", {}) for x in reflect.walk(back)):
            V("cached-hash-pickled", "a node unpickled from the pickle of a hashed expression carries a cached _hash_value")
        if not has_dw(node):
            if not (back == node) or hash(back) != hash(node):
                V("pickle-roundtrip", "unpickled node != original or hashes differ (same process)")
    except Exception as e:  # noqa: BLE001
        V("exception", progcheck.exc_msg("pickle", e), where=progcheck.exc_site(e))
    seen, out = set(), []
    for v in viol:
        k = repr(sorted(v["sig"].items()))
        if k not in seen:
            seen.add(k)
            out.append(v)
    return {"evaluations": n, "keys": keys, "nontrivial": True, "outcome": "ok" if not out else "violation",
            "violations": out[:15], "sample": {"node": case["label"], "mutants": len(ms), "comparisons": n}}


def run_relations(case):
    from vf import poolchild
    items = poolchild.full_pool()
    objs = [o for _, o in items]
    viol = []
    n = 0
    eq = {}
    # group by class: different classes are never equal (checked on a slice)
    for i, a in enumerate(objs):
        for j, b in enumerate(objs):
            if type(a) is not type(b):
                continue
            n += 1
            try:
                eq[i, j] = bool(a == b)
            except Exception as e:  # noqa: BLE001
                viol.append({"sig": {"kind": "exception", "where": progcheck.exc_site(e)}, "msg": progcheck.exc_msg("==", e)})
                eq[i, j] = False
    for (i, j), v in eq.items():
        if v != eq[j, i]:
            viol.append({"sig": {"kind": "not-symmetric", "node": type(objs[i]).__name__}, "msg": f"{items[i][0]} vs {items[j][0]}"})
        if v and hash(objs[i]) != hash(objs[j]):
            viol.append({"sig": {"kind": "equal-but-hash-differs", "node": type(objs[i]).__name__},
                         "msg": f"{items[i][0]} == {items[j][0]} but hashes differ"})
    byclass = collections.defaultdict(list)
    for i, o in enumerate(objs):
        byclass[type(o)].append(i)
    for cls, idx in byclass.items():
        for i, j, k in itertools.product(idx, repeat=3):
            if eq[i, j] and eq[j, k] and not eq[i, k]:
                viol.append({"sig": {"kind": "not-transitive", "node": cls.__name__}, "msg": f"{items[i][0]}, {items[j][0]}, {items[k][0]}"})
    for i in range(len(objs)):
        if not eq[i, i]:
            viol.append({"sig": {"kind": "not-reflexive", "node": type(objs[i]).__name__}, "msg": items[i][0]})
    seen, out = set(), []
    for v in viol:
        k = repr(sorted(v["sig"].items()))
        if k not in seen:
            seen.add(k)
            out.append(v)
    return {"evaluations": n, "keys": [["pairs", n]], "nontrivial": True, "outcome": "ok" if not out else "violation",
            "violations": out[:10], "sample": {"pool": len(objs), "pairs": n}}


def run_child(case):
    import pytato as pt
    from vf import poolchild
    items = poolchild.full_pool()
    # hash everything first: a cached hash must not travel
    for _, o in items:
        try:
            hash(o)
        except Exception:  # noqa: BLE001
            pass
    d = tempfile.mkdtemp(prefix="ptv-c04-", dir=os.environ.get("VERIF_SCRATCH", "/var/tmp"))
    path = os.path.join(d, "pool.pkl")
    with open(path, "wb") as f:
        pickle.dump({"labels": [l for l, _ in items], "objects": [o for _, o in items]}, f)
    try:
        res = procrun.run_json(["-m", "vf.poolchild", "compare", path], case["seed"])
    finally:
        import shutil
        shutil.rmtree(d, ignore_errors=True)
    viol = []
    if not res["labels_match"]:
        viol.append({"sig": {"kind": "harness-pool-differs-in-child"}, "msg": "child built a different pool"})
    n = 0
    for it, (label, o) in zip(res["items"], items):
        n += 1
        kind = type(o).__name__
        if it.get("cached_hash_in_unpickled"):
            viol.append({"sig": {"kind": "cached-hash-survives-pickling", "node": kind}, "msg": f"{label}: _hash_value present after unpickling in a process with hash seed {case['seed']}"})
        if "eq_error" in it or "hash_error" in it:
            viol.append({"sig": {"kind": "exception-in-child", "node": kind}, "msg": f"{label}: {it.get('eq_error') or it.get('hash_error')}"})
            continue
        if has_dw(o):
            continue
        if not it["eq"] or not it["eq_sym"]:
            viol.append({"sig": {"kind": "unpickled-not-equal-in-other-process", "node": kind}, "msg": f"{label} (hash seed {case['seed']})"})
        elif not it["hash_eq"]:
            viol.append({"sig": {"kind": "unpickled-equal-but-hash-differs-in-other-process", "node": kind},
                         "msg": f"{label}: equal to the rebuilt expression in the child (hash seed {case['seed']}) but hashes differ"})
    seen, out = set(), []
    for v in viol:
        k = repr(sorted(v["sig"].items()))
        if k not in seen:
            seen.add(k)
            out.append(v)
    del pt
    return {"evaluations": n, "keys": [["child", case["seed"], i] for i in range(n)], "nontrivial": True,
            "outcome": "ok" if not out else "violation", "violations": out[:10],
            "sample": {"child_hash_seed": case["seed"], "objects": n}}


def run_histories(case):
    import pytato as pt
    import pytato.transform as ptt
    from vf import dagfam, nodepool
    graphs = [dagfam.every_edge_kind(False, True, with_calls=False), dagfam.diamond(), dagfam.ladder(10),
              dagfam.shared_function_defs("fg")]
    g2, base = nodepool.base_nodes()
    objs = graphs + [n for _, n in base if isinstance(n, pt.Array)][:12]
    children = {s: procrun.EchoChild(s) for s in ("1", "2")}
    viol = []
    n = 0
    OPS = ("hash", "pickle", "child1", "child2", "copy")
    try:
        for o in objs:
            dw = has_dw(o)
            for L in range(1, case.get("maxlen", 3) + 1):
                for seq in itertools.product(OPS, repeat=L):
                    cur = o
                    n += 1
                    try:
                        for op in seq:
                            if op == "hash":
                                hash(cur)
                            elif op == "pickle":
                                data = pickle.dumps(cur)
                                cur = pickle.loads(data)
                                if any("_hash_value" in getattr(x, "__dict__", {}) for x in reflect.walk(cur)):
                                    viol.append({"sig": {"kind": "cached-hash-pickled"}, "msg": f"{type(o).__name__}: history {seq}"})
                            elif op.startswith("child"):
                                back, h, data = children[op[-1]].roundtrip(cur)
                                if h == "STALE":
                                    viol.append({"sig": {"kind": "cached-hash-survives-pickling", "node": type(o).__name__},
                                                 "msg": f"{type(o).__name__}: history {seq}: arrives in a child with another hash seed with a cached hash"})
                                if False:
                                    viol.append({"sig": {"kind": "cached-hash-survives-pickling", "node": type(o).__name__},
                                                 "msg": f"{type(o).__name__}: history {seq}: object hashed in a child with another hash seed comes back with its hash cache"})
                                cur = back
                            elif op == "copy":
                                cur = ptt.CopyMapper(err_on_collision=False, err_on_created_duplicate=False)(cur) if isinstance(cur, (pt.Array, pt.AbstractResultWithNamedArrays)) else cur
                        if not dw:
                            if not (cur == o and o == cur):
                                viol.append({"sig": {"kind": "history-breaks-equality", "history": list(seq)}, "msg": f"{type(o).__name__}: after {seq} the expression no longer equals the original"})
                            elif hash(cur) != hash(o):
                                viol.append({"sig": {"kind": "history-breaks-hash", "history": list(seq)},
                                             "msg": f"{type(o).__name__}: after {seq} the expression equals the original but hashes differently"})
                    except Exception as e:  # noqa: BLE001
                        viol.append({"sig": {"kind": "exception", "where": progcheck.exc_site(e), "history": list(seq)}, "msg": progcheck.exc_msg("history", e)})
    finally:
        for c in children.values():
            c.close()
    seen, out = set(), []
    for v in viol:
        k = repr(sorted(v["sig"].items()))
        if k not in seen:
            seen.add(k)
            out.append(v)
    return {"evaluations": n, "keys": [["histories", n]], "nontrivial": True, "outcome": "ok" if not out else "violation",
            "violations": out[:10], "sample": {"objects": len(objs), "histories": n}}


def run_case(case):
    return {"node": run_node, "relations": run_relations, "child": run_child, "histories": run_histories}[case["what"]](case)


def vacuity(summary):
    if summary["evaluations"] < 5000:
        return f"too few comparisons: {summary['evaluations']}"
    return None
