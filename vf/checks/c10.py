"""C10 — mismatched or cyclic communication is diagnosed, never partitioned."""
from __future__ import annotations

import collections
import warnings

import numpy as np

from vf import distfault, distrun, distspace, progcheck, runner, values

warnings.filterwarnings("ignore")

PROPERTY = "C10"
LEVEL = "model_checking"
TECHNIQUE = ("exhaustive fault enumeration over the bounded C08 program space: every single fault of the alphabet (drop / duplicate "
             "(chained, sibling, same object) / retag / redirect (to every other rank, including the sender itself) one send or "
             "one receive; add a message closing a dependency cycle across ranks) at every communication operation of every "
             "base program, and all unordered pairs of faults for the structured families; an independent global model "
             "(vf/distfault.classify, terms only) says whether the faulted program is well-formed; the real "
             "find_distributed_partition + number_distributed_tags + verify_distributed_partition then run on every rank "
             "under the replaying simulated MPI; whatever is returned on all ranks is executed under ALL Waitsome schedules "
             "(C08's explicit-state search) to exhibit the deadlock or wrong delivery")
RULE = ("one case = one base program with all its faulted variants; state = one faulted program; ill-formed (per the model): "
        "some rank must raise a documented diagnostic (DistributedPartitionVerificationError family, "
        "PartitionInducedCycleError, CycleError, the self-send NotImplementedError) -- all ranks returning a partition is a "
        "violation, and so is a crash that is not a diagnostic (KeyError, bare assert); a missing counterpart is diagnosed on the rank that lacks it, a pure cycle on every rank, and the diagnostic names a defect the program has; well-formed (unfaulted programs and "
        "fault pairs that cancel): every rank returns, and every schedule terminates with the reference values")
ASSUMPTIONS = [
    "fault alphabet as listed; a duplicate that staples the *same* send object twice is one send by value semantics: "
    "accepting it (and executing it correctly) or diagnosing it are both admissible",
    "a diagnostic raised on one rank aborts the job (as an uncaught exception does under mpi4py's run wrapper); ranks "
    "left waiting in a collective by a raising peer are not counted against the property",
]
DIAGNOSTICS = ("DuplicateSendError", "DuplicateRecvError", "MissingSendError", "MissingRecvError", "PartitionInducedCycleError",
               "CycleError", "DistributedPartitionVerificationError")


def bounds(tier):
    return {"ranks": 3 if tier == "quick" else 4, "messages": 3 if tier == "quick" else 4, "faults_per_program": 2,
            "fault_kinds": list(distfault.FAULT_KINDS) + ["self-recv"]}


def enumerate_cases(tier, seed):
    progs = distspace.programs(tier, seed)
    structured = [(f, p) for f, p in progs if not f.startswith("R") and not f.startswith("stored")]
    skel = [{"fam": f, "prog": p, "pairs": False} for f, p in progs if f.startswith("R")]
    if tier == "quick":
        cases = runner.slice_by_seed(skel, seed, 8)
    else:
        # thorough: every fault at every site of every program within the quick bounds of the skeleton space, and of a
        # seed-chosen 1/6 of the larger skeletons (R2M4, R3M3)
        small = [c for c in skel if c["fam"] not in ("R2M4", "R3M3")]
        cases = small + runner.slice_by_seed([c for c in skel if c["fam"] in ("R2M4", "R3M3")], seed, 6)
    # "a correct computation is never rejected": every base program of the space, unfaulted
    chosen = {runner.stable_hash(c) for c in cases}
    cases += [dict(c, nofaults=True) for c in skel if runner.stable_hash(c) not in chosen]
    for f, p in structured:
        big = len(p["ops"]) > 4
        cases.append({"fam": f, "prog": p, "pairs": (tier != "quick") or not big})
    if tier != "quick":
        for c in skel:
            if c["fam"] in ("R2M1", "R2M2", "R3M1"):
                c["pairs"] = True
    return cases


def setup_worker():
    distrun.install_fake_mpi()


def is_diagnostic(e):
    n = type(e).__name__
    if n in DIAGNOSTICS or any(b.__name__ in DIAGNOSTICS for b in type(e).__mro__):
        return True
    if isinstance(e, NotImplementedError) and "Self-" in str(e):
        return True
    return False


def execute_all_schedules(prog, parts, where, viol, counters):
    R = prog["R"]
    inputs = [distrun.rank_inputs(prog, r, "ramp") for r in range(R)]
    try:
        ref = distrun.global_reference(prog, "ramp")
    except Exception as e:  # noqa: BLE001
        ref = None
        referr = e
    ex = distrun.explore_schedules(R, parts, inputs, max_states=3000)
    problems = []
    for e in ex["errors"]:
        if e["kind"] != "harness-nondeterminism":
            problems.append(f"rank {e['rank']} raises {type(e['exc']).__name__}: {e['exc']} after {e['state']}")
    for d in ex["deadlocks"]:
        problems.append(f"deadlock in schedule {d['state']}: {d['why']}")
    if ref is None:
        problems.append(f"(global reference undefined: {referr})")
    else:
        for t in ex["terminals"]:
            for r in range(R):
                out = t["outputs"][r]
                for n in ref[r]:
                    if n not in out or values.compare(np.asarray(out[n]), ref[r][n], scale=float(np.abs(ref[r][n]).max()) if ref[r][n].size else 1.0, nred=8):
                        problems.append(f"rank {r} output {n} wrong in schedule {distrun.describe(t['state'])}")
    counters["executed_schedule_states"] += ex["states"]
    return ex, problems


def run_case(case):  # noqa: C901
    prog = case["prog"]
    viol = []
    counters = collections.Counter()
    variants = [([], prog)] + ([] if case.get("nofaults") else distfault.faulted_programs(prog, pairs=case.get("pairs", False)))
    nstates = ntrans = 0
    keys = []
    for faults, fp in variants:
        R = fp["R"]
        nstates += 1
        keys.append([runner.stable_hash(prog["ops"]), runner.stable_hash(prog["ranks"]), faults])
        defects = distfault.classify(fp)
        lenient = any(f[0] == "dup-send" and f[2] == "same-payload" for f in faults)
        where = (f"program {case['fam']} ops={[(o['src'], o['dst'], o['deps'], o['use_input'], o.get('forward')) for o in prog['ops']]} "
                 f"faults={faults} (model: {defects or 'well-formed'})")
        fk = "+".join(sorted({f[0] for f in faults})) or "none"
        try:
            res = distrun.partition_all(fp, verify=True)
        except Exception as e:  # noqa: BLE001
            viol.append({"sig": {"kind": "harness", "error": type(e).__name__}, "msg": f"{where}: {progcheck.exc_msg('engine', e)[:800]}"})
            continue
        ntrans += len(res["log"]) * R + R
        status = res["status"]
        raised = {r: s[1] for r, s in status.items() if s[0] == "exc"}
        returned = [r for r, s in status.items() if s[0] == "ok"]
        diag = {r: e for r, e in raised.items() if is_diagnostic(e)}
        crash = {r: e for r, e in raised.items() if not is_diagnostic(e)}
        counters[f"outcome:{'well-formed' if not defects else 'ill-formed'}:{'diagnosed' if diag else 'crash' if crash else 'returned' if len(returned) == R else 'stuck'}"] += 1
        if defects:
            who = "all-ranks" if len(raised) == R else "root-only" if set(raised) == {0} else "none" if not raised else "some-ranks"
            if len(faults) == 1:
                counters[f"raisers:{faults[0][0]}:{who}"] += 1
            # a diagnostic must name a defect the program has
            names = {"DuplicateSendError": "duplicate-send", "DuplicateRecvError": "duplicate-recv", "MissingSendError": "missing-send",
                     "MissingRecvError": "missing-recv", "CycleError": "cycle", "PartitionInducedCycleError": "cycle"}
            for r, e in sorted(diag.items()):
                claimed = names.get(type(e).__name__)
                if isinstance(e, NotImplementedError):
                    claimed = "self-send" if "Self-sends" in str(e) else "self-recv"
                if claimed is not None and claimed not in defects and not (lenient and claimed == "duplicate-send"):
                    viol.append({"sig": {"kind": "diagnostic-names-a-defect-the-program-does-not-have", "claimed": claimed, "defects": defects},
                                 "msg": f"{where}: rank {r} raises {type(e).__name__}: {str(e)[:200]}"})
                    break
            # an operation without its counterpart is diagnosed on the rank that lacks the counterpart (not only by the
            # root's global check in the verifier)
            if set(defects) <= {"missing-send", "missing-recv"} and not lenient and diag:
                expected = distfault.lacking_ranks(fp)
                got = {r for r, e in diag.items() if type(e).__name__ in ("MissingSendError", "MissingRecvError")}
                if not expected <= got:
                    viol.append({"sig": {"kind": "missing-operation-not-diagnosed-on-the-rank-that-lacks-it", "defects": defects},
                                 "msg": f"{where}: ranks lacking an operation {sorted(expected)}, ranks raising Missing*Error {sorted(got)}, "
                                        f"status { {r: (s[0], type(s[1]).__name__ if s[0] == 'exc' else '') for r, s in status.items()} }"})
            # a dependency cycle is found by the root and the exception is broadcast: every rank raises it
            if defects == ["cycle"] and not lenient and diag and len(raised) != R:
                viol.append({"sig": {"kind": "cycle-diagnosed-on-some-ranks-only"},
                             "msg": f"{where}: ranks raising: {sorted(raised)}, others: { {r: s[0] for r, s in status.items() if r not in raised} }"})
            if crash and not diag:
                r0 = sorted(crash)[0]
                e = crash[r0]
                viol.append({"sig": {"kind": "ill-formed-program-crashes-without-diagnostic", "defects": defects, "error": type(e).__name__,
                                     "where": progcheck.exc_site(e)},
                             "msg": f"{where}: rank {r0} raises {type(e).__name__}: {str(e)[:300]} (not a diagnostic)\n"
                                    + progcheck.exc_msg("partition/verify", e)[-700:]})
            elif not raised:
                if len(returned) == R:
                    parts = [status[r][1]["partition"] for r in range(R)]
                    try:
                        ex, problems = execute_all_schedules(fp, parts, where, viol, counters)
                    except Exception as e:  # noqa: BLE001
                        problems = [f"(execution engine: {type(e).__name__}: {e})"]
                    if lenient and not problems:
                        counters["same-object-duplicate-accepted"] += 1
                        continue
                    viol.append({"sig": {"kind": "ill-formed-program-partitioned-on-all-ranks", "defects": defects, "fault": fk},
                                 "msg": f"{where}: every rank returned a verified partition; executing it: {problems[:3] or 'terminates'}\n"
                                        f"terms: {fp['ranks']}"})
                else:
                    viol.append({"sig": {"kind": "ill-formed-program-hangs-in-collective", "defects": defects, "fault": fk},
                                 "msg": f"{where}: no rank raises; status { {r: s[0] for r, s in status.items()} }"})
            continue
        # well-formed: never rejected, executes faithfully in all schedules
        if raised or len(returned) != R:
            if lenient and diag:
                counters["same-object-duplicate-diagnosed"] += 1
                continue
            r0 = sorted(raised)[0] if raised else None
            e = raised.get(r0)
            viol.append({"sig": {"kind": "well-formed-program-rejected", "error": type(e).__name__ if e is not None else "stuck",
                                 "fault": fk},
                         "msg": f"{where}: " + (f"rank {r0} raises {type(e).__name__}: {str(e)[:300]}" if e is not None else
                                                f"status { {r: s[0] for r, s in status.items()} }") + f"\nterms: {fp['ranks']}"})
            continue
        if faults:
            parts = [status[r][1]["partition"] for r in range(R)]
            ex, problems = execute_all_schedules(fp, parts, where, viol, counters)
            problems = [p for p in problems]
            if problems:
                viol.append({"sig": {"kind": "well-formed-faulted-program-misexecutes", "fault": fk},
                             "msg": f"{where}: {problems[:3]}\nterms: {fp['ranks']}"})
    seen, out = set(), []
    for v in viol:
        k = repr(sorted(v["sig"].items(), key=repr))
        if k not in seen:
            seen.add(k)
            out.append(v)
    return {"key": None, "evaluations": nstates, "keys": keys,
            "nontrivial": True, "outcome": "ok" if not out else "violation", "violations": out[:8],
            "states": nstates, "transitions": ntrans, "traces": nstates, "counters": dict(counters),
            "sample": {"family": case["fam"], "faulted_variants": len(variants) - 1, "pairs": case.get("pairs", False)}}


def vacuity(summary):
    c = summary["counters"]
    if not any(k.startswith("outcome:ill-formed:diagnosed") for k in c):
        return "no ill-formed program was diagnosed"
    if not any(k.startswith("outcome:well-formed:returned") for k in c):
        return "no well-formed program was accepted"
    return None
