"""C09 — every distributed partition is well-formed and all ranks agree on it."""
from __future__ import annotations

import collections
import copy
import warnings

from vf import distrun, distspace, explore, progcheck, reflect, runner
from vf import terms as T

warnings.filterwarnings("ignore")

PROPERTY = "C09"
LEVEL = "model_checking"
TECHNIQUE = ("exhaustive exploration: every multi-rank program of the bounded C08 program space x every order and bracketing "
             "in which the commutative allreduce may combine the ranks' contributions (explorer-owned choice point) x "
             "symbolic communication tags of several hashable types (int, str, tuple, frozenset, a user class whose hash "
             "depends on PYTHONHASHSEED); the real partitioner / tag numbering / verifier run on every rank against the "
             "replaying simulated MPI (results cross ranks by pickling, as between processes); the documented "
             "DistributedGraphPart contract and cross-rank agreement are checked by code that shares nothing with verify.py; "
             "a multi-process variant runs each rank in a child interpreter with its own hash seed, for every assignment "
             "of seeds {0,1,2} to ranks")
RULE = ("states = (program, tag typing, reduction order) combinations, transitions = collective rounds replayed; oracle per "
        "state: each overall output and sent array produced by exactly one part; every name read is a user input, received "
        "by that or an earlier part, or an earlier part's output; received names never outputs, sent names always; no "
        "communication nodes inside part expressions; needed_pids acyclic; the global graph of parts over all ranks "
        "(needed_pids + one edge per message) acyclic and a global round numbering exists (strictly increasing along every "
        "rank's part order, receiving part = sending part + 1 for every message); the partition does not depend on the "
        "reduction order; verifier accepts on all ranks; after "
        "numbering both ends of a message carry the same int, distinct messages between one ordered pair distinct ints, "
        "next_tag identical on all ranks")
ASSUMPTIONS = [
    "simulated collectives: allreduce applies the registered op in an arbitrary order/bracketing (it is declared "
    "commutative), bcast/gather copy by pickling",
    "the multi-process variant uses persistent child interpreters (one per hash seed) that execute a rank's code for a "
    "given script of collective results",
]
TAG_TYPINGS = ("int", "str", "tuple", "frozenset", "cls", "mixed", "mixed-int-first")


def bounds(tier):
    return {"ranks": 3, "messages": 3 if tier == "quick" else 4, "tag_typings": TAG_TYPINGS, "hash_seed_assignments": "all of {0,1,2}^R"}


def retag(prog, typing):
    """same program with symbolic tags of another hashable type"""
    if typing == "int":
        return prog

    def conv(tag):
        if typing in ("mixed", "mixed-int-first"):
            # integer and non-integer symbolic tags in one program; the integers lie where the numbering starts (base_tag 42)
            i = tag - 100
            if (i % 2 == 1) == (typing == "mixed"):
                return 42 + i // 2
            return f"sym{i}"
        if typing == "str":
            return f"tag{tag}"
        if typing == "tuple":
            return ["tuple", "msg", tag]
        if typing == "frozenset":
            return ["frozenset", tag, f"t{tag}"]
        if typing == "cls":
            return ["cls", f"c{tag}"]
        raise ValueError(typing)

    def rec(t):
        if isinstance(t, list):
            if t and t[0] == "recv":
                return ["recv", t[1], conv(t[2]), t[3], t[4]]
            if t and t[0] == "send":
                return ["send", rec(t[1]), t[2], conv(t[3]), rec(t[4])]
            return [rec(x) for x in t]
        return t
    p = copy.deepcopy(prog)
    for r in list(p["ranks"]):
        p["ranks"][r]["outs"] = [[n, rec(t)] for n, t in p["ranks"][r]["outs"]]
    for o in p["ops"]:
        o["symtag"] = conv(o["tag"])
    p["typing"] = typing
    return p


def enumerate_cases(tier, seed):
    progs = distspace.programs(tier, seed)
    cases = []
    for f, p in progs:
        cases.append({"fam": f, "prog": p, "typing": "int"})
    # other tag typings: all structured programs, and a seed-chosen slice of the skeleton space
    rest = []
    for f, p in progs:
        for ty in TAG_TYPINGS[1:]:
            if not f.startswith("R"):
                cases.append({"fam": f, "prog": retag(p, ty), "typing": ty})
            else:
                rest.append({"fam": f, "prog": retag(p, ty), "typing": ty})
    cases += runner.slice_by_seed(rest, seed, 40 if tier == "quick" else 12)
    # multi-process hash-seed assignments (few programs, all assignments)
    mp = [("ring2x2", distspace.ring(2, 2)), ("multi-send", distspace.multi_send()), ("star3", distspace.star(3)),
          ("multi-stage-mixed3", distspace.multi_stage_shared("mixed", 3))]
    if tier != "quick":
        mp += [("ring3x2", distspace.ring(3, 2)), ("chain3", distspace.chain(3))]
    for f, p in mp:
        for ty in ("cls", "frozenset"):
            cases.append({"fam": f, "prog": retag(p, ty), "typing": ty, "multiprocess": True})
    return cases


def setup_worker():
    distrun.install_fake_mpi()


# --------------------------------------------------------------------------
# the contract, checked independently of verify.py

def check_contract(prog, results, where, viol):  # noqa: C901
    import pytato as pt
    R = prog["R"]

    def V(kind, msg, **sig):
        viol.append({"sig": {"kind": kind, **sig}, "msg": f"{where}: {msg}"})
    parts_per_rank = []
    for r in range(R):
        res = results[r]
        part = res["partition"]
        parts = part.parts
        pids = list(parts)
        parts_per_rank.append(part)
        user_inputs = {n.name for n in reflect.walk(res["dag"]) if isinstance(n, (pt.Placeholder, pt.SizeParam))}
        producers = collections.defaultdict(list)
        for pid, p in parts.items():
            for n in p.output_names:
                producers[n].append(pid)
        for n in part.overall_output_names:
            if len(producers.get(n, [])) != 1 and n not in user_inputs:
                V("overall-output-not-produced-exactly-once", f"rank {r}: overall output {n!r} produced by parts {producers.get(n, [])}")
        for pid, p in parts.items():
            for n in p.name_to_send_nodes:
                if producers.get(n, []) != [pid]:
                    V("sent-name-not-output-of-its-part", f"rank {r}: part {pid} sends {n!r}, produced by parts {producers.get(n, [])}")
            for n in p.name_to_recv_node:
                if n in producers:
                    V("received-name-is-a-part-output", f"rank {r}: name {n!r} received by part {pid} is also an output of parts {producers[n]}")
            for n in p.output_names:
                if n not in part.name_to_output:
                    V("output-name-without-expression", f"rank {r}: part {pid} output {n!r}")
        # needed_pids: acyclic, closed
        order = {}
        done = set()
        progress = True
        while progress:
            progress = False
            for pid, p in parts.items():
                if pid not in done and set(p.needed_pids) <= done:
                    order[pid] = len(order)
                    done.add(pid)
                    progress = True
        if len(done) != len(parts):
            V("needed-pids-cyclic-or-dangling", f"rank {r}: parts {sorted(set(parts) - done, key=repr)} can never become ready")
            continue

        def closure(pid):
            out, stack = set(), list(parts[pid].needed_pids)
            while stack:
                q = stack.pop()
                if q not in out:
                    out.add(q)
                    stack += list(parts[q].needed_pids)
            return out
        for pid, p in parts.items():
            earlier = closure(pid)
            readable = set(user_inputs) | set(p.name_to_recv_node)
            for q in earlier:
                readable |= set(parts[q].name_to_recv_node) | set(parts[q].output_names)
            for n in p.all_input_names():
                if n not in readable:
                    V("name-read-before-it-exists", f"rank {r}: part {pid} reads {n!r}, which is neither a user input nor received/"
                      f"produced by an earlier part (needed: {sorted(earlier, key=repr)})")
            if not (set(p.user_input_names) <= user_inputs):
                V("user-input-names-not-user-inputs", f"rank {r}: part {pid}: {sorted(set(p.user_input_names) - user_inputs)}")
            # the expressions of this part's outputs may only mention readable names, and no communication nodes
            for n in p.output_names:
                expr = part.name_to_output.get(n)
                if expr is None:
                    continue
                for node in reflect.walk(expr):
                    if isinstance(node, (pt.DistributedRecv, pt.DistributedSendRefHolder)):
                        V("communication-node-inside-part", f"rank {r}: output {n!r} of part {pid} contains a {type(node).__name__}")
                    if isinstance(node, pt.Placeholder) and node.name != n and node.name not in p.all_input_names() \
                            and node.name not in p.name_to_recv_node:
                        V("expression-reads-undeclared-name", f"rank {r}: output {n!r} of part {pid} reads placeholder {node.name!r}, "
                          f"which is neither in its user_input_names / partition_input_names {sorted(p.all_input_names())} nor "
                          f"received by it")
                    if isinstance(node, pt.Placeholder) and node.name not in readable and node.name != n:
                        V("expression-reads-unlisted-name", f"rank {r}: output {n!r} of part {pid} reads placeholder {node.name!r} "
                          f"that is not among its inputs")
        del pids
    # cross-rank agreement.  A rank only materialises the rounds in which it communicates, so part indices are
    # local; "the same rounds in the same order on all ranks" is observable as: (1) the global graph of parts
    # (needed_pids edges + one edge per message from the sending to the receiving part) is acyclic, and (2) a
    # global round numbering exists: level(part) strictly increasing along each rank's part order and
    # level(receiving part) == level(sending part) + 1 for every message (a part begins with the receives of
    # one round and ends with the sends of the next)
    sends, recvs = {}, {}
    for r, part in enumerate(parts_per_rank):
        for pid, p in part.parts.items():
            for n, ss in p.name_to_send_nodes.items():
                for s in ss:
                    sends.setdefault((r, s.dest_rank, s.comm_tag), []).append(pid)
            for n, rv in p.name_to_recv_node.items():
                recvs.setdefault((rv.src_rank, r, rv.comm_tag), []).append(pid)
    matched = []
    for k in sorted(set(sends) | set(recvs), key=repr):
        if len(sends.get(k, [])) != 1 or len(recvs.get(k, [])) != 1:
            V("message-ends-do-not-match-after-partitioning", f"message {k}: send parts {sends.get(k)}, receive parts {recvs.get(k)}")
            continue
        matched.append(((k[0], sends[k][0]), (k[1], recvs[k][0]), k))
    nodes = [(r, pid) for r, part in enumerate(parts_per_rank) for pid in part.parts]
    edges = collections.defaultdict(set)      # node -> nodes that must run before
    for r, part in enumerate(parts_per_rank):
        for pid, p in part.parts.items():
            for q in p.needed_pids:
                edges[(r, pid)].add((r, q))
    for snd, rcv, _k in matched:
        if snd != rcv:
            edges[rcv].add(snd)
        else:
            V("message-sent-and-received-by-one-part", f"message {_k}")
    done, progress = set(), True
    while progress:
        progress = False
        for nd in nodes:
            if nd not in done and edges[nd] <= done:
                done.add(nd)
                progress = True
    if len(done) != len(nodes):
        V("global-part-graph-cyclic", f"parts {sorted(set(nodes) - done)} wait for each other: the partition deadlocks "
          f"(messages: {[k for _, _, k in matched]})")
    else:
        # difference constraints  x_v - x_u <= w  as edges u -> v (weight w); feasible iff no negative cycle
        cons = []
        for r, part in enumerate(parts_per_rank):
            pids = list(part.parts)
            try:
                pids = sorted(pids)
            except TypeError:
                pass
            for a_, b_ in zip(pids, pids[1:]):
                cons.append(((r, b_), (r, a_), -1))          # L[a] - L[b] <= -1
        for snd, rcv, _k in matched:
            cons.append((snd, rcv, 1))                        # L[rcv] - L[snd] <= 1
            cons.append((rcv, snd, -1))                       # L[snd] - L[rcv] <= -1
        dist = {nd: 0 for nd in nodes}
        changed = False
        for _ in range(len(nodes) + 1):
            changed = False
            for u, v, w in cons:
                if dist[u] + w < dist[v]:
                    dist[v] = dist[u] + w
                    changed = True
            if not changed:
                break
        if changed:
            V("communication-rounds-differ-between-ranks", "no global round numbering is consistent with all ranks' part orders: "
              f"messages (sending part -> receiving part): {[(s_, r_) for s_, r_, _ in matched]}, parts per rank "
              f"{[list(p.parts) for p in parts_per_rank]}")
    # tag numbering
    nexts = {results[r]["next_tag"] for r in range(R)}
    if len(nexts) != 1:
        V("next-tag-differs-between-ranks", f"{[results[r]['next_tag'] for r in range(R)]}")
    for k in list(sends) + list(recvs):
        if not isinstance(k[2], int):
            V("tag-not-numbered", f"message {k} still carries a symbolic tag")
    # the numbered ends must pair up exactly like the symbolic ones of the program
    want = collections.Counter((o["src"], o["dst"]) for o in prog["ops"])
    got = collections.Counter((k[0], k[1]) for k in sends)
    if want != got or want != collections.Counter((k[0], k[1]) for k in recvs):
        V("messages-lost-or-merged-by-numbering", f"program has {dict(want)} messages per ordered pair, partitions have sends {dict(got)}")
    return parts_per_rank


def run_inprocess(case):
    prog = case["prog"]
    R = prog["R"]
    viol = []
    counters = collections.Counter()
    where0 = f"program {case['fam']} tags {case['typing']} ops={[(o['src'], o['dst'], o['deps'], o['use_input'], o.get('forward')) for o in prog['ops']]}"
    nstates = ntrans = 0
    outcomes = collections.Counter()

    # a program that sends a received array on unchanged: the verifier is exercised once, the contract is
    # explored with the verifier off (its failure is attributed to the forwarding, see known findings)
    fwd = any(o.get("forward") and not o["use_input"] for o in prog["ops"])

    def fwd_sig(sig):
        return {"kind": "forwarded-receive", "what": sig.get("kind"), **({"error": sig["error"]} if "error" in sig else {})}

    def driver(ch):
        return distrun.partition_all(prog, chooser=ch, verify=not fwd)
    summaries = set()
    runs = list(explore.explore(driver, max_runs=200))
    if fwd:
        runs.append((None, distrun.partition_all(prog, verify=True)))
    for ch, res in runs:
        nstates += 1
        ntrans += len(res["log"]) * R
        where = where0 + (f" allreduce-order choices {ch.choices}" if ch is not None else " (verifier on)")
        bad = {r: s for r, s in res["status"].items() if s[0] != "ok"}
        if bad:
            r0 = sorted(bad)[0]
            st = bad[r0]
            if st[0] == "exc":
                sig = {**progcheck.exc_sig("partition/verify", st[1])}
                msg = progcheck.exc_msg("partition/verify", st[1])[:1500]
            else:
                sig = {"kind": "rank-stuck-in-collective", "in": st[1]}
                msg = f"rank {r0} stuck in {st[1]} while ranks {sorted(set(res['status']) - set(bad))} returned"
            if fwd and ch is None:
                sig = fwd_sig({**sig, "kind": "verifier-rejects"})
            viol.append({"sig": sig, "msg": f"{where}: {msg}"})
            outcomes["rejected-or-stuck"] += 1
            continue
        if ch is None:
            outcomes["ok"] += 1
            continue
        results = {r: res["status"][r][1] for r in range(R)}
        v0 = len(viol)
        parts = check_contract(prog, results, where, viol)
        if fwd:
            for v in viol[v0:]:
                if v["sig"]["kind"] in ("received-name-is-a-part-output", "sent-name-not-output-of-its-part"):
                    v["sig"] = fwd_sig(v["sig"])
        outcomes["ok" if len(viol) == v0 else "contract-violated"] += 1
        # the result must not depend on the reduction order
        summ = repr([[(pid, sorted(p.output_names), sorted(p.name_to_recv_node), sorted(p.name_to_send_nodes), sorted(p.needed_pids, key=repr))
                      for pid, p in part.parts.items()] for part in parts])
        summaries.add(summ)
    if len(summaries) > 1:
        viol.append({"sig": {"kind": "partition-depends-on-reduction-order"},
                     "msg": f"{where0}: {len(summaries)} different partitions for different orders of the commutative allreduce"})
    counters.update(outcomes)
    seen, out = set(), []
    for v in viol:
        k = repr(sorted(v["sig"].items()))
        if k not in seen:
            seen.add(k)
            out.append(v)
    return {"key": None,
            "evaluations": nstates, "keys": [[runner.stable_hash(prog["ranks"]), case["typing"], i] for i in range(nstates)],
            "nontrivial": True, "outcome": "ok" if not out else "violation", "violations": out[:8],
            "states": nstates, "transitions": ntrans, "traces": nstates, "counters": dict(counters),
            "sample": {"family": case["fam"], "typing": case["typing"], "reduction_orders": nstates}}


def run_case(case):
    if case.get("multiprocess"):
        from vf import distchild
        return distchild.run_multiprocess_case(case, check_contract)
    return run_inprocess(case)


def vacuity(summary):
    if summary["states"] < summary["ncases"]:
        return f"too few states: {summary['states']}"
    return None
