"""C03 — shape and dtype are inferred eagerly and agree with NumPy."""
from __future__ import annotations

import itertools
import re
import warnings

import numpy as np

from vf import progcheck, runner, space
from vf import terms as T

warnings.filterwarnings("ignore")

PROPERTY = "C03"
LEVEL = "exploration"
TECHNIQUE = ("bounded exhaustive differential enumeration: every operator x operand kind x dtype pair, every ordered "
             "pair of shapes with <=3 axes of length 0..4, every slice/int index on axis lengths 0..6, every axis "
             "argument in [-ndim-1, ndim+1]; pytato's constructor outcome and .shape/.dtype compared with NumPy "
             "applied to the same term on zero-filled operands")
RULE = ("one case = one term built through the public API and through NumPy; cases are grouped in batches of "
        "structurally similar terms; distinct = distinct terms, non-trivial = both libraries accepted the term and "
        "shape+dtype were compared, or NumPy rejected it with a shape/axis/index error and pytato's reaction was checked")
ASSUMPTIONS = [
    "the installed NumPy is the reference for promotion rules (as the README states)",
    "pytato rejecting at construction something NumPy accepts is allowed (documented subset) and only counted",
    "bounded scope: <=3 axes of length 0..4 for broadcasting, axis lengths 0..6 for indexing",
]

DT11 = ["bool", "int8", "int16", "int32", "int64", "uint8", "uint16", "uint32", "uint64",
        "float32", "float64", "complex64", "complex128"]
PYS = [["py", True], ["py", 3], ["py", 2.5], ["py", {"c": [1.0, 2.0]}]]
NPS = [["nps", dt, 1] for dt in DT11]
BATCH = 150


def bounds(tier):
    return {"dtypes": len(DT11), "shape_axes": 3, "shape_len": 4 if tier == "thorough" else 3,
            "index_axis_len": 6}


def all_shapes(maxnd, maxlen):
    res = [()]
    for nd in range(1, maxnd + 1):
        res += list(itertools.product(range(maxlen + 1), repeat=nd))
    return res


def gen_terms(tier):  # noqa: C901
    ph = space.ph
    # (a) operators x operand kinds x dtype pairs
    for op in space.ALL_BINOPS:
        for d1 in DT11:
            for d2 in DT11:
                yield "a", space.mkbin(op, ph("a", (3,), d1), ph("b", (3,), d2))
            for sc in PYS + NPS:
                yield "a", space.mkbin(op, ph("a", (3,), d1), sc)
                yield "a", space.mkbin(op, sc, ph("a", (3,), d1))
    # (b) one arithmetic op x all ordered shape pairs
    shapes = all_shapes(3, 3 if tier == "quick" else 4)
    if tier == "quick":
        shapes = [s for s in shapes if len(s) <= 2 or max(s) <= 2]
    for s1 in shapes:
        for s2 in shapes:
            yield "b", ["bin", "add", ph("a", s1, "float64"), ph("b", s2, "int32")]
    for s1, s2, s3 in itertools.product([(), (3,), (2, 3), (2, 1), (1, 3), (2,), (0,), (1,)], repeat=3):
        yield "b", ["where", ph("c", s1, "bool"), ph("a", s2, "float64"), ph("b", s3, "float64")]
    # (c) every slice / int index on axis lengths 0..6
    for n in range(0, 7):
        x = ph("a", (n,), "float64")
        for i in range(-n - 2, n + 2):
            yield "c", ["index", x, [i]]
        rng = [None] + list(range(-n - 2, n + 3))
        steps = [None, 1, -1, 2, -2, 3, -3, n + 1, -(n + 1), 0]
        for st in rng:
            for sp in rng:
                for step in steps:
                    yield "c", ["index", x, [["s", st, sp, step]]]
    x2 = ph("a", (3, 4), "float64")
    for idx in [[0, 0, 0], [["s", None, None, None]] * 3, ["...", "..."], [None], [1.5], ["...", 0, 0],
                [["a", ph("i", (2,), "float64")]], [["a", ph("i", (2,), "int32")], ["a", ph("j", (3,), "int32")]],
                [["a", ph("i", (2,), "int32")], ["a", ph("j", (2,), "int64")]], [["a", ph("i", (2,), "bool")]],
                [["npi", "int64", 2]], [["npi", "int32", -3], ["npi", "int64", 3]], [["npi", "int32", 3]]]:
        yield "c", ["index", x2, idx]
    # (d) axis arguments
    for shape in [(), (3,), (2, 3), (2, 3, 2), (1, 3, 1)]:
        nd = len(shape)
        x = ph("a", shape, "float64")
        y = ph("b", shape, "float64")
        axes = list(range(-nd - 1, nd + 2))
        for ax in axes:
            for r in T.REDOPS:
                yield "d", ["red", r, x, ax]
            yield "d", ["stack", ax, x, y]
            yield "d", ["concat", ax, x, y]
            yield "d", ["roll", x, 1, ax]
            yield "d", ["expand_dims", x, ax]
            yield "d", ["squeeze", x, ax]
        for a1 in axes:
            for a2 in axes:
                yield "d", ["red", "sum", x, [a1, a2]]
                yield "d", ["expand_dims", x, [a1, a2]]
        for p in itertools.product(range(-1, nd + 1), repeat=nd):
            yield "d", ["transpose", x, list(p)]
        yield "d", ["transpose", x, list(range(nd + 1))]
        yield "d", ["transpose", x, list(range(max(nd - 1, 0)))]
    for shapes in [[(3,), (2,)], [(2, 3), (2, 2)], [(2, 3), (3, 3)], [(2, 3), (3,)], [(2,), (2, 1)]]:
        for ax in (-2, -1, 0, 1, 2):
            ops = [ph("abc"[i], s, "float64") for i, s in enumerate(shapes)]
            yield "d", ["concat", ax, *ops]
            yield "d", ["stack", ax, *ops]
    for shape, ns in itertools.product([(6,), (2, 3), (0,), (0, 3), (), (1,), (4,)],
                                       [[6], [3, 2], [-1], [2, -1], [-1, -1], [4], [0], [0, -1], [], [1], [1, 1],
                                        [5], [-1, 0], [2, 2], [-2, -3], [7, -1]]):
        for order in "CF":
            yield "d", ["reshape", ph("a", shape, "float64"), ns, order]
    for shape, tgt in itertools.product([(3,), (1, 3), (2, 1), (), (2,), (0,), (1,)],
                                        [(3,), (2, 3), (3, 2), (), (0,), (2, 0), (1,), (4, 2, 3), (1, 1)]):
        yield "d", ["broadcast_to", ph("a", shape, "float64"), list(tgt)]
    # (e) reductions x dtypes, where / maximum / astype / einsum / matmul / dot / pad / creation x dtypes
    for dt in DT11:
        for r in T.REDOPS:
            yield "e", ["red", r, ph("a", (2, 3), dt), None]
            yield "e", ["red", r, ph("a", (2, 3), dt), 0]
        for fn in T.MATHFNS:
            yield "e", ["fn", fn, ph("a", (3,), dt)]
        yield "e", ["neg", ph("a", (3,), dt)]
        yield "e", ["abs", ph("a", (3,), dt)]
        yield "e", ["lnot", ph("a", (3,), dt)]
        yield "e", ["zeros_like", ph("a", (3,), dt)]
        yield "e", ["ones_like", ph("a", (3,), dt)]
        yield "e", ["pad", ph("a", (3,), dt), 1, 0]
        yield "e", ["pad", ph("a", (3,), dt), 1, 1.5]
        yield "e", ["zeros", [2], dt]
        yield "e", ["ones", [2], dt]
        yield "e", ["full", [2], 1, dt]
        yield "e", ["eye", 2, 3, 0, dt]
        if np.dtype(dt).kind not in "bc":
            yield "e", ["arange", [5], dt]
            yield "e", ["arange", [1, 5, 2], dt]
        for d2 in DT11:
            yield "e", ["astype", ph("a", (3,), dt), d2]
            yield "e", ["where", ph("c", (3,), "bool"), ph("a", (3,), dt), ph("b", (3,), d2)]
            yield "e", ["einsum", "ij,jk->ik", ph("a", (2, 3), dt), ph("b", (3, 2), d2)]
            yield "e", ["matmul", ph("a", (2, 3), dt), ph("b", (3,), d2)]
            yield "e", ["dot", ph("a", (3,), dt), ph("b", (3,), d2)]
            yield "e", ["vdot", ph("a", (3,), dt), ph("b", (3,), d2)]
            yield "e", ["stack", 0, ph("a", (3,), dt), ph("b", (3,), d2)]
            yield "e", ["concat", 0, ph("a", (3,), dt), ph("b", (3,), d2)]
        for sc in PYS:
            yield "e", ["where", ph("c", (3,), "bool"), ph("a", (3,), dt), sc]
            yield "e", ["where", ph("c", (3,), "bool"), sc, ph("a", (3,), dt)]
    for v in [2.5, 3, True, ["py", {"c": [1.0, 2.0]}]]:
        yield "e", ["full", [2], v, None]
    yield "e", ["eye", 3, None, 0, None]
    for spec, shapes in [("ij,jk->ik", [(2, 3), (4, 2)]), ("ii->i", [(2, 3)]), ("ij->k", [(2, 3)]),
                         ("ij,j", [(2, 3), (3,)]), ("ij,jk", [(2, 3), (3, 2)]), ("i,i,i->", [(3,), (3,), (1,)]),
                         ("ij->ij", [(2,)]), ("i->ii", [(3,)]), ("ij,ij->ij", [(2, 3), (2, 1)]),
                         ("...j,j->...", [(2, 3), (3,)])]:
        yield "e", ["einsum", spec, *[ph("abc"[i], s, "float64") for i, s in enumerate(shapes)]]
    for s1, s2 in itertools.product([(), (3,), (2, 3), (3, 2), (2, 2, 3), (4,)], repeat=2):
        yield "e", ["matmul", ph("a", s1, "float64"), ph("b", s2, "float64")]
        yield "e", ["dot", ph("a", s1, "float64"), ph("b", s2, "float64")]
    # (f) every C01 operation instance (and with it every intermediate node)
    for _f, t, _s, _d in space.l1("quick"):
        yield "f", t


def enumerate_cases(tier, seed):
    seen = set()
    terms = []
    for g, t in gen_terms(tier):
        k = T.tkey(t)
        if k in seen:
            continue
        seen.add(k)
        terms.append((g, t))
    return [{"batch": terms[i:i + BATCH]} for i in range(0, len(terms), BATCH)]


SHAPE_ERRS = (ValueError, IndexError, TypeError, ZeroDivisionError)


def np_outcome(t):
    try:
        sd = T.np_shape_dtype(t)
        return ("ok", sd)
    except SHAPE_ERRS as e:
        return ("err", e)
    except Exception as e:  # noqa: BLE001
        return ("other", e)


def is_shape_axis_index_error(t, e):
    """NumPy rejected the term: is it a shape / axis / index error (must be
    rejected by pytato at construction) rather than a dtype-level refusal?"""
    if isinstance(e, (IndexError,)):
        return True
    if type(e).__name__ == "AxisError":
        return True
    msg = str(e)
    if isinstance(e, ValueError):
        keys = ("broadcast", "shape", "axis", "axes", "dimension", "reshape", "zero-size", "step cannot be zero",
                "same number", "operand", "subscript", "mismatch", "einstein sum", "out of bounds", "core dim",
                "aligned", "size ")
        return any(k in msg.lower() for k in keys)
    if isinstance(e, TypeError):
        return False
    return False


def kind_class(name):
    """'py:int64' -> 'py:i'; 'uint8' -> 'u'; int64 kept apart from narrower ints
    because NumPy's reductions promote the narrower ones"""
    pre = ""
    if ":" in name:
        pre, name = name.split(":")
        pre += ":"
    try:
        d = np.dtype(name)
    except TypeError:
        return pre + name
    k = d.kind
    if k in "iu" and d.itemsize < 8 and not pre:
        k += "<64"
    if k in "fc" and not pre:
        k += str(d.itemsize * 8)
    return pre + k


def run_one(g, t):  # noqa: C901
    viol = []
    npo = np_outcome(t)
    excl = None
    b = T.PtBuilder()
    try:
        r = b(t)
        pto = ("ok", r)
    except Exception as e:  # noqa: BLE001
        pto = ("err", e)
    op = progcheck._root_sig(t)
    ops_ = [o for o in T.subterms(t) if o[0] not in ("s",)]
    if t[0] == "where":
        ops_ = ops_[1:]     # the condition's dtype never matters for the result dtype
    opsig = sorted({kind_class(progcheck.operand_descr_dtype(o)) for o in ops_})
    if npo[0] == "other":
        return "numpy-other-error", viol
    if pto[0] == "ok":
        # shape / dtype / ndim must be readable right away, on every node built
        for (st, node) in b.nodes:
            try:
                shp, dt, nd = node.shape, node.dtype, node.ndim
            except Exception as e:  # noqa: BLE001
                if npo[0] == "err" and is_shape_axis_index_error(t, npo[1]):
                    viol.append({"sig": {"kind": "late-rejection", "op": progcheck._root_sig(st),
                                         "attr-error": type(e).__name__},
                                 "msg": f"{st} accepted at construction, NumPy rejects it ({type(npo[1]).__name__}: {npo[1]}), "
                                        f"and reading .shape/.dtype raises {type(e).__name__}: {e}"})
                else:
                    viol.append({"sig": {"kind": "shape-unreadable", "op": progcheck._root_sig(st), "error": type(e).__name__},
                                 "msg": f"{st}: .shape/.dtype/.ndim raised {type(e).__name__}: {e}"})
                return "pt-attr-error", viol
            if st is t or T.tkey(st) == T.tkey(t):
                if npo[0] == "ok":
                    nshape, ndt = npo[1]
                    if not isinstance(dt, np.dtype):
                        viol.append({"sig": {"kind": "dtype-not-normalised", "op": op},
                                     "msg": f"{t}: .dtype is {dt!r}, not a numpy.dtype instance"})
                    if tuple(shp) != tuple(nshape) or nd != len(nshape):
                        viol.append({"sig": {"kind": "shape", "op": op},
                                     "msg": f"{t}: pytato shape {shp} != NumPy {nshape}"})
                    elif np.dtype(dt) != ndt:
                        viol.append({"sig": {"kind": "dtype", "op": op, "operands": opsig},
                                     "msg": f"{t}: pytato dtype {np.dtype(dt)} != NumPy {ndt}"})
        if npo[0] == "err":
            if is_shape_axis_index_error(t, npo[1]):
                viol.append({"sig": {"kind": "accepted-what-numpy-rejects", "op": op,
                                     "numpy-error": type(npo[1]).__name__,
                                     "numpy-msg": re.sub(r"[-0-9]+", "N", str(npo[1]))[:48]},
                             "msg": f"{t}: NumPy raises {type(npo[1]).__name__}: {npo[1]} but pytato built it "
                                    f"(shape {r.shape if hasattr(r, 'shape') else '?'})"})
                return "both-disagree", viol
            return "numpy-dtype-refusal/pt-accepts", viol
        return ("agree" if not viol else "mismatch"), viol
    # pytato raised
    e = pto[1]
    if npo[0] == "err":
        if isinstance(e, (ValueError, IndexError, TypeError, NotImplementedError)) or type(e).__name__ in (
                "CannotBroadcastError", "AxisError"):
            return "both-reject", viol
        viol.append({"sig": {"kind": "unclean-rejection", **progcheck.exc_sig("construct", e)},
                     "msg": f"{t}: NumPy rejects ({type(npo[1]).__name__}) and pytato raises {type(e).__name__} "
                            f"(not a diagnostic exception): {e}"})
        return "both-reject-unclean", viol
    if isinstance(e, (ValueError, IndexError, TypeError, NotImplementedError)):
        return "pt-rejects-subset:" + type(e).__name__, viol
    viol.append({"sig": {"kind": "unclean-rejection", **progcheck.exc_sig("construct", e)},
                 "msg": progcheck.exc_msg("construct", e, t)})
    del excl
    return "pt-crash", viol


def run_case(case):
    viol, ocs, keys = [], [], []
    n = 0
    for g, t in case["batch"]:
        oc, v = run_one(g, t)
        ocs.append(g + ":" + oc.split(":")[0])
        viol += v
        n += 1
        if oc in ("agree", "mismatch", "both-reject", "both-disagree", "pt-attr-error"):
            keys.append(t)
    return {"evaluations": n, "keys": keys, "outcome": ocs, "violations": viol,
            "sample": {"term": case["batch"][0][1], "outcome": ocs[0]}}


def vacuity(summary):
    oc = summary["outcomes"]
    agree = sum(v for k, v in oc.items() if k.endswith(":agree"))
    rej = sum(v for k, v in oc.items() if k.endswith(":both-reject"))
    if agree < 1000 or rej < 100:
        return f"too few decided cases: agree={agree} both-reject={rej}"
    return None
