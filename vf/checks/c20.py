"""C20 — graph analyses agree with the graph and with each other."""
from __future__ import annotations

import collections
import warnings

import numpy as np

from vf import dagfam, progcheck, reflect, runner, space
from vf import terms as T

warnings.filterwarnings("ignore")

PROPERTY = "C20"
LEVEL = "model_checking"
TECHNIQUE = ("exhaustive comparison, over every graph of a family containing every node kind and every edge kind (shared "
             "node reached through operand / shape / index / CSR part / send payload / passthrough / call binding / "
             "loopy-call binding / dict entry; with and without duplicates; symbolic shapes; multi-output dictionaries; "
             "functions; distributed nodes) and over representative programs of the C01 space, of every analysis "
             "(users, predecessors, transitive users, topological order, node / type / multiplicity / tag counts, "
             "materialised nodes) with the state graph enumerated by an independent reflective walk and with each other")
RULE = ("states = nodes, transitions = edges of the reflective walk; one case = one graph; oracles: users <-> "
        "predecessors converse with multiplicity (list variants) and as sets; transitive users = reflective ancestors; "
        "topological order lists every node once, after its predecessors; counts = distinct nodes by == / objects by id; "
        "tag counts = carrying nodes; materialised set = {inputs, receives, call bindings and results, loopy-call "
        "bindings and results, ImplStored nodes, send payloads, CSR products} (+ outputs iff requested)")
ASSUMPTIONS = [
    "vf/reflect.py's walk over dataclass fields (plus the derived .shape property) is the model of the graph",
    "data-flow predecessor of a send-ref holder: the payload and the passthrough data (as the predecessor getter documents)",
    "CSR products count as materialised by type (the collector's docstring: 'materialized based on their type or usage')",
]


def bounds(tier):
    return {"family_graphs": len(dagfam.all_graphs(tier)), "program_graphs": "L1 representatives (+L2 slice)"}


def enumerate_cases(tier, seed):
    cases = [{"graph": n} for n, _b, _d in dagfam.all_graphs(tier)]
    reps = space.representatives("quick")
    rl = []
    for sig in sorted(reps, key=repr):
        for f, t in reps[sig]:
            rl.append({"term": t, "fam": f})
    l2 = [{"term": t, "fam": f} for f, t in space.l2("quick")]
    extra = [{"outs": o, "fam": f} for f, o in space.symbolic_programs()]
    if tier == "quick":
        l2 = runner.slice_by_seed(l2, seed, 150)
    else:
        l2 = runner.slice_by_seed(l2, seed, 10)
    return cases + rl + l2 + extra


def model_preds(n):
    """data-flow predecessors of node n by reflection: array-valued fields (with multiplicity), array-valued
    components of the derived shape, payload + passthrough for send holders, container for named results"""
    import pytato as pt
    from pytato.function import Call, FunctionDefinition, NamedCallResult
    from pytato.loopy import LoopyCall, LoopyCallResult
    if isinstance(n, pt.DictOfNamedArrays):
        return list(n._data.values())
    if isinstance(n, FunctionDefinition):
        return list(n.returns.values())
    if isinstance(n, Call):
        return list(n.bindings.values())
    if isinstance(n, LoopyCall):
        return [a for a in n.bindings.values() if isinstance(a, pt.Array)]
    if isinstance(n, (NamedCallResult, LoopyCallResult)):
        return [n._container]
    if isinstance(n, pt.DistributedSendRefHolder):
        return [n.send.data, n.passthrough_data]
    if isinstance(n, pt.CSRMatmul):
        m = n.matrix
        return [m.elem_values, m.elem_col_indices, m.row_starts, n.array]
    res = []
    for (fld, path), ch in reflect.child_edges(n):
        if isinstance(ch, pt.Array):
            res.append(ch)
    return res


def derived_shape_arrays(n):
    """array-valued components of a *derived* shape (a property, not a field): an implementation may or
    may not count them as predecessors -- both readings are admitted by the model"""
    import pytato as pt
    fields = {name for name, _ in reflect.raw_fields(n)} if __import__("dataclasses").is_dataclass(n) else set()
    if isinstance(n, pt.Array) and "shape" not in fields:
        try:
            return [d for d in n.shape if isinstance(d, pt.Array)]
        except Exception:  # noqa: BLE001
            return []
    return []


def ids(lst):
    return collections.Counter(id(x) for x in lst)


def check_graph(g, where, has_dup):  # noqa: C901
    import pytato as pt
    import pytato.analysis as pa
    import pytato.transform as ptt
    from pytato.function import FunctionDefinition
    viol = []
    counters = collections.Counter()
    top = None
    for owner, nodes in reflect.scopes(g):
        if owner is None:
            top = nodes
    arrays = [n for n in top if isinstance(n, pt.Array)]
    nodes = [n for n in top if isinstance(n, (pt.Array, pt.AbstractResultWithNamedArrays))]
    # the model also has to contain arrays that exist only in derived shapes
    known = {id(n) for n in nodes}
    extra = []
    for n in list(nodes):
        if isinstance(n, pt.Array):
            for d in n.shape:
                if isinstance(d, pt.Array) and id(d) not in known:
                    for x in reflect.walk(d):
                        if id(x) not in known and isinstance(x, pt.Array):
                            known.add(id(x))
                            extra.append(x)
    # (derived shapes are rebuilt on every .shape access: their arrays have no stable identity and are
    # therefore not part of the identity-based comparisons)
    extra = []
    byid = {id(n): n for n in nodes}

    def V(kind, msg, **sig):
        viol.append({"sig": {"kind": kind, **sig}, "msg": f"{where}: {msg}"})

    # ---- A. list users <-> list predecessors, with multiplicity
    try:
        lou = pa.get_list_of_users(g)
        nus = pa.get_nusers(g)
        lpg = pa.ListOfDirectPredecessorsGetter()
        for v in nodes:
            if isinstance(v, FunctionDefinition):
                continue
            if isinstance(v, pt.DictOfNamedArrays):
                continue     # the output dictionary is a container, not a computation that "uses" values
            preds = lpg(v)
            mp = model_preds(v)
            dsa = ids(derived_shape_arrays(v))
            extra_ = ids(preds) - ids(mp)
            if (ids(mp) - ids(preds)) or any(k not in dsa for k in extra_):
                V("predecessor-list-vs-model", f"node {type(v).__name__}: ListOfDirectPredecessorsGetter gives "
                  f"{[type(p).__name__ for p in preds]}, reflective model {[type(p).__name__ for p in mp]}",
                  node=type(v).__name__)
            for u_id, k in ids([p for p in preds if isinstance(p, pt.Array)]).items():
                u = byid.get(u_id)
                if u is None:
                    continue
                got = sum(1 for w in lou.get(u, []) if w is v)
                if not has_dup and got != k:
                    V("users-list-not-converse", f"{type(u).__name__} is a predecessor of {type(v).__name__} {k} time(s) "
                      f"but {type(v).__name__} is listed {got} time(s) among its users", user=type(v).__name__, pred=type(u).__name__,
                      **({"via": "derived-shape"} if (u_id in dsa and u_id not in ids(mp)) else {}))
        if not has_dup:
            for u, users in lou.items():
                for w in users:
                    if not any(p is u for p in model_preds(w)) and not any(p is u for p in lpg(w)):
                        V("spurious-user-in-list", f"{type(w).__name__} listed as user of {type(u).__name__} but does not depend on it",
                          user=type(w).__name__)
                if nus[u] != len(users):
                    V("nusers-vs-list", f"get_nusers {nus[u]} != len(list of users) {len(users)} for {type(u).__name__}")
        counters["list_pairs"] += len(nodes)
    except Exception as e:  # noqa: BLE001
        if type(e).__name__ == "UnsupportedArrayError":
            counters["users-list-refused(unsupported node kind)"] += 1      # (a refusal with a diagnostic, not a wrong answer)
        else:
            V("exception", progcheck.exc_msg("list users/preds", e), **{k: v for k, v in progcheck.exc_sig("list-users", e).items() if k != "kind"})
    # ---- B. set users <-> set predecessors
    try:
        users = ptt.get_users(g)
        dpg = pa.DirectPredecessorsGetter()
        if not has_dup:
            for v in nodes:
                if isinstance(v, pt.DictOfNamedArrays):
                    continue
                for u in dpg(v):
                    if isinstance(u, pt.Array) and not any(w is v for w in users.get(u, ())):
                        V("users-set-not-converse", f"{type(u).__name__} is a direct predecessor of {type(v).__name__}, "
                          f"which is missing from get_users()[{type(u).__name__}]", user=type(v).__name__, pred=type(u).__name__,
                          **({"via": "derived-shape"} if (id(u) in ids(derived_shape_arrays(v)) and id(u) not in ids(model_preds(v))) else {}))
            for u, us in users.items():
                for w in us:
                    if isinstance(w, pt.DictOfNamedArrays):
                        continue
                    if isinstance(w, (pt.Array, pt.AbstractResultWithNamedArrays)) and not any(p is u for p in dpg(w)):
                        V("spurious-user-in-set", f"{type(w).__name__} in get_users()[{type(u).__name__}] but {type(u).__name__} "
                          f"is not among its direct predecessors", user=type(w).__name__)
            # ---- C. transitive users = reflective ancestors
            anc = collections.defaultdict(set)
            for v in nodes:
                if isinstance(v, pt.DictOfNamedArrays):
                    continue
                for p in list(model_preds(v)) + list(derived_shape_arrays(v)):
                    anc[id(p)].add(id(v))
            for probe in [a for a in arrays if isinstance(a, (pt.Placeholder, pt.DataWrapper, pt.SizeParam))][:6] + arrays[:3]:
                want = set()
                stack = list(anc[id(probe)])
                while stack:
                    i = stack.pop()
                    if i not in want:
                        want.add(i)
                        stack += list(anc[i])
                got = {id(x) for x in ptt.rec_get_user_nodes(g, probe)
                       if not isinstance(x, pt.DictOfNamedArrays) and id(x) in byid}
                if got != want:
                    miss = [type(byid[i]).__name__ for i in want - got if i in byid]
                    more = len(got - want)
                    V("transitive-users", f"rec_get_user_nodes({type(probe).__name__}) misses {miss[:6]} and has {more} extra",
                      probe=type(probe).__name__, missing=sorted(set(miss))[:4])
        counters["set_pairs"] += len(nodes)
    except Exception as e:  # noqa: BLE001
        if type(e).__name__ == "UnsupportedArrayError":
            counters["users-set-refused(unsupported node kind)"] += 1
        else:
            V("exception", progcheck.exc_msg("set users/preds", e), **{k: v for k, v in progcheck.exc_sig("set-users", e).items() if k != "kind"})
    # ---- D. topological order
    try:
        tsm = ptt.TopoSortMapper()
        tsm(g)
        order = tsm.topological_order
        pos = {}
        for i, n in enumerate(order):
            if id(n) in pos and not has_dup:
                V("toposort-duplicate", f"{type(n).__name__} listed twice")
            pos.setdefault(id(n), i)
        if not has_dup:
            for n in arrays:
                if id(n) not in pos and not any(n is e for e in extra):
                    V("toposort-missing", f"{type(n).__name__} not in the topological order", node=type(n).__name__)
            for n in order:
                if isinstance(n, pt.Array):
                    for p in model_preds(n):
                        if isinstance(p, pt.Array) and id(p) in pos and pos[id(p)] > pos[id(n)]:
                            V("toposort-order", f"{type(n).__name__} listed before its predecessor {type(p).__name__}",
                              node=type(n).__name__, pred=type(p).__name__)
    except NotImplementedError:
        counters["toposort-not-supported(functions)"] += 1
    except Exception as e:  # noqa: BLE001
        V("exception", progcheck.exc_msg("toposort", e), **{k: v for k, v in progcheck.exc_sig("toposort", e).items() if k != "kind"})
    # ---- E. counts (all scopes: functions are counted too)
    try:
        allnodes = []
        for owner, ns in reflect.scopes(g):
            allnodes += [n for n in ns if isinstance(n, (pt.Array, pt.AbstractResultWithNamedArrays, FunctionDefinition))]
        # the implementations do not count the top-level dictionary / function definitions? -> compare per type
        tc_dup = pa.get_node_type_counts(g, count_duplicates=True)
        tc = pa.get_node_type_counts(g, count_duplicates=False)
        want_dup = collections.Counter(type(n) for n in allnodes if not isinstance(n, (pt.DictOfNamedArrays,)))
        want = collections.Counter()
        seen_scope = []
        for owner, ns in reflect.scopes(g):
            uniq = set()
            for n in ns:
                if isinstance(n, (pt.Array, pt.AbstractResultWithNamedArrays, FunctionDefinition)) and not isinstance(n, pt.DictOfNamedArrays):
                    uniq.add(n)
            seen_scope.append(uniq)
            for n in uniq:
                want[type(n)] += 1
        for ty in set(want_dup) | set(tc_dup):
            if want_dup.get(ty, 0) != tc_dup.get(ty, 0) and not _has_functions(g):
                V("type-count-objects", f"get_node_type_counts(count_duplicates=True)[{ty.__name__}] = {tc_dup.get(ty, 0)}, "
                  f"reflective walk finds {want_dup.get(ty, 0)} objects", type=ty.__name__)
        if not _has_functions(g):
            for ty in set(want) | set(tc):
                if want.get(ty, 0) != tc.get(ty, 0):
                    V("type-count-distinct", f"get_node_type_counts(count_duplicates=False)[{ty.__name__}] = {tc.get(ty, 0)}, "
                      f"distinct nodes by == : {want.get(ty, 0)}", type=ty.__name__)
            if pa.get_num_nodes(g, count_duplicates=False) != sum(want.values()):
                V("num-nodes-distinct", f"get_num_nodes(count_duplicates=False) = {pa.get_num_nodes(g, count_duplicates=False)}, "
                  f"distinct nodes {sum(want.values())}")
        if _has_functions(g):
            counters["counts-not-decided(functions)"] += 1
            # how often a node inside a function body counts is not pinned down, but the analyses must agree with each
            # other, and every node of the *top-level* scope (call sites and loopy calls included) is a node of the graph
            nn_dup, nn = pa.get_num_nodes(g, count_duplicates=True), pa.get_num_nodes(g, count_duplicates=False)
            if sum(tc_dup.values()) != nn_dup or sum(tc.values()) != nn:
                V("counts-disagree-with-each-other", f"sum of get_node_type_counts = {sum(tc_dup.values())} / {sum(tc.values())} but "
                  f"get_num_nodes = {nn_dup} / {nn} (count_duplicates True / False)")
            multf = pa.get_node_multiplicities(g)
            if sum(multf.values()) != nn_dup:
                V("counts-disagree-with-each-other", f"sum of get_node_multiplicities = {sum(multf.values())} but "
                  f"get_num_nodes(count_duplicates=True) = {nn_dup}", what="multiplicities")
            top = seen_scope[0] if seen_scope else set()
            top_want = collections.Counter(type(n) for n in top if not isinstance(n, FunctionDefinition))
            for ty, k in top_want.items():
                if tc.get(ty, 0) < k:
                    V("top-level-nodes-not-counted", f"get_node_type_counts(count_duplicates=False)[{ty.__name__}] = {tc.get(ty, 0)} "
                      f"but the top-level scope alone has {k} distinct {ty.__name__} node(s)", type=ty.__name__)
        elif pa.get_num_nodes(g, count_duplicates=True) != sum(want_dup.values()):
            V("num-nodes-objects", f"get_num_nodes(count_duplicates=True) = {pa.get_num_nodes(g, count_duplicates=True)}, "
              f"objects {sum(want_dup.values())}")
        mult = pa.get_node_multiplicities(g)
        if not _has_functions(g):
            wantm = collections.Counter()
            for n in allnodes:
                if not isinstance(n, pt.DictOfNamedArrays):
                    wantm[n] += 1
            for n, k in wantm.items():
                if mult.get(n, 0) != k:
                    V("multiplicity", f"get_node_multiplicities[{type(n).__name__}] = {mult.get(n, 0)}, objects equal to it: {k}",
                      type=type(n).__name__)
        # ---- F. tag counts
        from pytato.tags import ImplStored
        from vf import tagdefs
        for tagt in (ImplStored, tagdefs.UserArrayTag):
            wantt = 0
            for uniq in seen_scope:
                wantt += sum(1 for n in uniq if isinstance(n, pt.Array) and n.tags_of_type(tagt))
            gott = pa.get_num_tags_of_type(g, tagt)
            if gott != wantt and not has_dup:
                V("tag-count", f"get_num_tags_of_type({tagt.__name__}) = {gott}, nodes carrying it: {wantt}", tag=tagt.__name__)
    except NotImplementedError:
        counters["counts-not-supported"] += 1
    except Exception as e:  # noqa: BLE001
        V("exception", progcheck.exc_msg("counts", e), **{k: v for k, v in progcheck.exc_sig("counts", e).items() if k != "kind"})
    # ---- G. materialised nodes
    try:
        from pytato.function import Call, NamedCallResult
        from pytato.loopy import LoopyCall, LoopyCallResult
        from pytato.tags import ImplStored
        want_ids = set()
        for owner, ns in reflect.scopes(g):
            for n in ns:
                if isinstance(n, (pt.Placeholder, pt.DataWrapper, pt.SizeParam, pt.DistributedRecv, LoopyCallResult,
                                  NamedCallResult, pt.CSRMatmul)):
                    want_ids.add(id(n))
                elif isinstance(n, pt.Array) and n.tags_of_type(ImplStored):
                    want_ids.add(id(n))
                if isinstance(n, pt.DistributedSendRefHolder):
                    want_ids.add(id(n.send.data))
                if isinstance(n, Call):
                    want_ids |= {id(b) for b in n.bindings.values()}
                if isinstance(n, LoopyCall):
                    want_ids |= {id(b) for b in n.bindings.values() if isinstance(b, pt.Array)}
                if isinstance(n, FunctionDefinition):
                    want_ids |= {id(r) for r in n.returns.values()}   # a callee's outputs are materialised in the callee
        for inc in (False, True):
            w = set(want_ids)
            if inc:
                w |= {id(a) for a in g._data.values()}
            got = pa.collect_materialized_nodes(g, include_outputs=inc)
            lookup = {id(n): n for _o, ns in reflect.scopes(g) for n in ns}
            # the result is a set by ==: compare as sets of (structurally) distinct nodes
            want_set = {lookup[i] for i in w if i in lookup}
            got_set = set(got)
            if not has_dup and got_set != want_set:
                miss = sorted({type(x).__name__ for x in want_set - got_set})
                more = sorted({type(x).__name__ for x in got_set - want_set})
                V("materialized-set", f"collect_materialized_nodes(include_outputs={inc}): missing kinds {miss}, unexpected kinds {more}",
                  include_outputs=inc, missing=miss[:4], unexpected=more[:4])
    except Exception as e:  # noqa: BLE001
        V("exception", progcheck.exc_msg("materialized", e), **{k: v for k, v in progcheck.exc_sig("materialized", e).items() if k != "kind"})
    return viol, counters, len(nodes), sum(len(model_preds(n)) for n in nodes if not isinstance(n, FunctionDefinition))


def _has_functions(g):
    from pytato.function import FunctionDefinition
    return any(isinstance(n, FunctionDefinition) for n in reflect.walk(g))


def run_case(case):
    import pytato as pt
    if "graph" in case:
        graphs = {n: (b, d) for n, b, d in dagfam.all_graphs("thorough")}
        build, has_dup = graphs[case["graph"]]
        g = build()
        where = f"graph {case['graph']}"
    else:
        outs = case.get("outs") or [["out", case["term"]]]
        try:
            b, arrays = progcheck.build_outputs(outs)
            g = pt.make_dict_of_named_arrays(arrays)
        except Exception:  # noqa: BLE001
            return {"key": case, "nontrivial": False, "outcome": "rejected", "violations": []}
        has_dup = reflect.has_structural_duplicates(g)
        where = f"program {outs}"
    snap = reflect.snapshot(g)
    viol, counters, nn, ne = check_graph(g, where, has_dup)
    if has_dup:
        # analyses with collision checking report duplicates instead of analysing (C13's business)
        viol = [v for v in viol if not (v["sig"].get("kind") == "exception" and "collision" in v["msg"])]
    if reflect.snapshot(g) != snap:
        viol.append({"sig": {"kind": "analysis-mutates-graph"}, "msg": where})
    # dedupe by signature
    seen, out = set(), []
    for v in viol:
        k = repr(sorted(v["sig"].items()))
        if k not in seen:
            seen.add(k)
            out.append(v)
    return {"key": case, "nontrivial": True, "outcome": "ok" if not out else "violation", "violations": out[:12],
            "states": nn, "transitions": ne, "traces": 1, "counters": dict(counters),
            "sample": {"case": case if "graph" in case else case.get("fam"), "nodes": nn, "edges": ne}}


def vacuity(summary):
    if summary["states"] < 2000:
        return f"too few nodes analysed: {summary['states']}"
    return None
