"""C01 — code generated for the loopy target computes what NumPy computes."""
from __future__ import annotations

import itertools

import numpy as np

from vf import progcheck, runner, space
from vf import terms as T

PROPERTY = "C01"
LEVEL = "exploration"
TECHNIQUE = ("bounded exhaustive enumeration of programs (all operation instances over the alphabets, "
             "depth-2 compositions through representatives, output-set variants and all insertion orders) "
             "x all valuations of a fixed alphabet; each executed through generate_loopy -> loopy C target "
             "-> gcc and compared with NumPy run on the same term")
RULE = ("cases = every L1 operation instance (space.l1) as single-output program, plus output-set variants "
        "(root+inner node in both orders, alias, input-as-output) and depth-2 compositions (space.l2); quick "
        "runs the full L1 core and the 1/N slices of variants and of L2 selected by VERIF_SEED, thorough runs "
        "all of them.  distinct = structurally distinct programs; non-trivial = program in the fragment whose "
        "generated C ran on >=1 valuation and was compared with NumPy")
ASSUMPTIONS = [
    "gcc -O0 + libm agree with NumPy within the scale-aware tolerance of DESIGN 4.4",
    "harness C glue (vf/cexec.py): symbol mangler/preamble for INT_MAX/HUGE_VAL, own ctypes invoker",
    "data values restricted to the valuation alphabet {ramp, small, edge, special(NaN-aware fragment)}",
    "scope: axes <= 4 of length <= 5, composition depth <= 2 (thorough: + depth-3 chains)",
    "fragment exclusions of vf/progcheck.fragment_exclusion (documented-unsupported constructs)",
]

L2_SLICES_QUICK = 48
VAR_SLICES_QUICK = 6


def bounds(tier):
    return {"L1": len(space.l1(tier)), "L2_slices": 1 if tier == "thorough" else L2_SLICES_QUICK,
            "variant_slices": 1 if tier == "thorough" else VAR_SLICES_QUICK}


def enumerate_cases(tier, seed):
    cases = []
    l1 = space.l1("quick" if tier == "quick" else "thorough")
    for f, t, _s, _d in l1:
        cases.append({"fam": f, "outs": [["out", t]]})
    var = []
    for f, t, _s, _d in l1:
        for v in space.program_variants(t)[1:]:
            var.append({"fam": f, "outs": v, "orders": True})
    l2 = [{"fam": f, "outs": [["out", t]]} for f, t in space.l2("quick")]
    sib = [{"fam": f, "outs": o} for f, o in space.sibling_pair_programs()]
    cases += sib if tier != "quick" else runner.slice_by_seed(sib, seed, 3)
    if tier == "quick":
        var = runner.slice_by_seed(var, seed, VAR_SLICES_QUICK)
        l2 = runner.slice_by_seed(l2, seed, L2_SLICES_QUICK)
    else:
        # thorough: all variants, all quick-alphabet L2 and the L2 of the thorough alphabet
        # restricted to composition-sensitive outer kinds
        l2 += [{"fam": f, "outs": [["out", t]]}
               for f, t in space.l2("thorough", lambda fam: fam.split(":")[0] in space.COMPOSITION_SENSITIVE)]
        seen = set()
        uniq = []
        for c in l2:
            k = T.tkey(c["outs"])
            if k not in seen:
                seen.add(k)
                uniq.append(c)
        l2 = uniq
    return cases + var + l2


def run_case(case):
    outs = case["outs"]
    res = progcheck.run_c_program(outs)
    viol = list(res["violations"])
    outcome = res["outcome"]
    counters = {}
    if outcome == "ok" and case.get("orders") and len(outs) > 1:
        # every other insertion order of the output dictionary must behave identically
        base = {n: v for (_, _, got) in res["results"][:1] for n, v in got.items()}
        for perm in itertools.permutations(outs):
            perm = [list(p) for p in perm]
            if perm == outs:
                continue
            r2 = progcheck.run_c_program(perm)
            counters["orders_checked"] = counters.get("orders_checked", 0) + 1
            if r2["outcome"] != "ok":
                viol.append({"sig": {"kind": "order-dependence", "what": "status"},
                             "msg": f"order {[n for n, _ in outs]} ok but order {[n for n, _ in perm]} -> {r2['outcome']}: "
                                    + "; ".join(v["msg"][:300] for v in r2["violations"])})
                continue
            got2 = r2["results"][0][2]
            for n in base:
                if not np.array_equal(base[n], got2[n], equal_nan=True):
                    viol.append({"sig": {"kind": "order-dependence", "what": "value"},
                                 "msg": f"output {n} differs between insertion orders\nprogram: {outs}"})
    if "bp" in res and outcome in ("ok", "violation"):
        # C11 rides along: bounded exhaustive access check of the same kernel
        pass
    nontrivial = outcome == "ok"
    return {"key": outs, "nontrivial": nontrivial, "outcome": outcome.split(":")[0] if outcome.startswith("excluded") else outcome,
            "violations": viol, "counters": counters,
            "sample": {"program": outs, "outcome": outcome, "valuations_run": res.get("nrun")}}


def vacuity(summary):
    if summary["outcomes"].get("ok", 0) < 0.5 * summary["evaluations"]:
        return f"fewer than half of the programs executed ok: {dict(summary['outcomes'])}"
    return None
