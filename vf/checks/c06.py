"""C06 — algebraic einsum rewrites never change the computed value."""
from __future__ import annotations

import collections
import warnings

import numpy as np

from vf import explore, progcheck, runner, values
from vf import terms as T

warnings.filterwarnings("ignore")

PROPERTY = "C06"
LEVEL = "exploration"
TECHNIQUE = ("bounded exhaustive enumeration of expressions containing 1..3 (nested) einsums/matmuls over operand trees "
             "of depth <=2 (+ - * / with scalars in either position, powers, math functions, indexing, reshape, "
             "transpose, unit-axis broadcasts) x exhaustive exploration of every answer sequence of the "
             "how_to_distribute policy callback (stateless DFS over the callback's choice points); original and "
             "rewritten graphs compared under the reference evaluator on all valuations")
RULE = ("one case = one expression; every policy = every sequence of answers {DoNotDistribute, DoDistribute(i)} the "
        "mapper asks for (choice points owned by the explorer); apply_distributive_property_to_einsums and "
        "rewrite_einsums_with_no_broadcasts each applied; oracle: value/shape/dtype unchanged; documented refusals "
        "(RuntimeError 'Cannot distribute ...', NotImplementedError) are admissible outcomes; distinct = "
        "(expression, policy) pairs; non-trivial = rewrite changed the graph and values were compared")
ASSUMPTIONS = [
    "vf/dageval.py as reference evaluator (graph before and after the rewrite)",
    "valuation alphabet {ramp, small, edge}: 'ramp' makes c/x and x/c differ by orders of magnitude",
    "scope: square 3x3 matrices / length-3 vectors, operand trees of depth <=2 (thorough: selected depth 3)",
]


def bounds(tier):
    return {"operand_tree_depth": 2, "einsums_per_expression": 3}


def phv(n):
    return ["ph", n, [3], "float64"]


def phm(n):
    return ["ph", n, [3, 3], "float64"]


def operand_trees(kind, depth, tier):
    """terms of result shape (3,) [kind 'v'] or (3,3) [kind 'm']"""
    leaf = phv if kind == "v" else phm
    x1, x2 = leaf("x1" + kind), leaf("x2" + kind)
    out = [x1]
    if depth == 0:
        return out
    subs = operand_trees(kind, depth - 1, tier) if depth > 1 else [x1]
    for a in subs:
        b = x2
        out += [
            ["bin", "add", a, b], ["bin", "sub", a, b], ["bin", "sub", b, a], ["bin", "mul", a, b],
            ["bin", "truediv", a, b],
            ["bin", "mul", ["py", 2.0], a], ["bin", "mul", a, ["py", 2.0]], ["bin", "mul", a, ["nps", "float64", 3.0]],
            ["bin", "truediv", a, ["py", 2.0]], ["bin", "truediv", ["py", 2.0], a],
            ["bin", "add", a, ["py", 1.0]], ["bin", "sub", ["py", 1.0], a], ["bin", "sub", a, ["py", 1.0]],
            ["bin", "pow", a, ["py", 2]], ["bin", "pow", ["py", 2.0], a],
            ["neg", a], ["fn", "sin", a], ["fn", "exp", a],
            ["index", a, [["s", None, None, -1]]], ["roll", a, 1, 0],
            ["bin", "mul", ["py", 2], ["bin", "add", a, b]], ["bin", "truediv", ["bin", "sub", a, b], ["py", 4.0]],
            ["bin", "add", ["bin", "mul", ["py", 2.0], a], ["bin", "truediv", b, ["py", 2.0]]],
            ["bin", "add", a, a], ["bin", "sub", ["bin", "add", a, b], a],
        ]
        if kind == "m":
            out += [["T", a], ["transpose", a, [1, 0]], ["bin", "add", a, ["T", b]],
                    ["reshape", ["reshape", a, [9], "C"], [3, 3], "C"],
                    ["bin", "add", a, ["ph", "rowm", [1, 3], "float64"]],
                    ["bin", "add", a, ["ph", "colm", [3, 1], "float64"]],
                    ["bin", "mul", a, ["ph", "rowm", [1, 3], "float64"]],
                    ["bin", "add", ["ph", "colm", [3, 1], "float64"], ["ph", "rowm", [1, 3], "float64"]],
                    ["matmul", a, b], ["bin", "add", ["matmul", a, b], b],
                    ["bin", "add", ["matmul", a, b], ["matmul", b, a]]]
        else:
            out += [["matmul", phm("Bm"), a], ["bin", "add", ["matmul", phm("Bm"), a], b],
                    ["bin", "add", a, ["ph", "onev", [1], "float64"]]]
    seen, res = set(), []
    for t in out:
        k = T.tkey(t)
        if k not in seen:
            seen.add(k)
            res.append(t)
    return res


def gen_terms(tier):
    A, B = phm("A"), phm("B")
    depth = 2
    vs = operand_trees("v", depth, tier)
    ms = operand_trees("m", depth, tier)
    v1 = operand_trees("v", 1, tier)
    m1 = operand_trees("m", 1, tier)
    for v in vs:
        yield "mat-vec", ["matmul", A, v]
        yield "einsum-ij,j->i", ["einsum", "ij,j->i", A, v]
    for v in v1:
        yield "vec-mat", ["matmul", v, A]
        yield "dot", ["einsum", "i,i->", v, phv("w")]
        yield "outer", ["einsum", "i,j->ij", v, phv("w")]
        for v2 in v1:
            yield "dot2", ["einsum", "i,i->", v, v2]
    for m in ms:
        yield "mat-mat", ["matmul", A, m]
    for m in m1:
        yield "mat-mat-left", ["matmul", m, A]
        yield "elementwise", ["einsum", "ij,ij->ij", A, m]
        yield "trace-like", ["einsum", "ij,ji->", A, m]
        yield "three", ["einsum", "ij,jk,kl->il", A, m, B]
        yield "three-mid", ["einsum", "ij,jk,k->i", A, m, phv("w")]
        for m2 in m1[:12]:
            yield "both", ["matmul", m, m2]
        # an index that is contracted although only one operand spans it (a unit axis inside the operand tree then counts
        # n times): single-operand reductions, an index private to one operand, a partner with a unit axis
        yield "rowsum", ["einsum", "ij->i", m]
        yield "colsum", ["einsum", "ij->j", m]
        yield "total", ["einsum", "ij->", m]
        yield "private-index", ["einsum", "ij,ik->ik", m, A]
        yield "private-index-right", ["einsum", "ik,ij->ik", A, m]
        yield "unit-partner", ["einsum", "ij,j->i", m, ["ph", "onev", [1], "float64"]]
        yield "unit-partner-matrix", ["einsum", "ij,jk->ik", m, ["ph", "rowm", [1, 3], "float64"]]
    # integer operands scaled by non-integral scalars (the scalar must not be converted to the operands' dtype)
    Ai, xi, Bi = ["ph", "Ai", [3, 3], "int64"], ["ph", "xi", [3], "int64"], ["ph", "Bi", [3, 3], "int64"]
    for sc in (["py", 0.5], ["py", 2.5], ["nps", "float64", 1.5]):
        yield "int-scaled", ["matmul", Ai, ["bin", "mul", xi, sc]]
        yield "int-scaled", ["matmul", Ai, ["bin", "mul", sc, xi]]
        yield "int-scaled", ["matmul", Ai, ["bin", "truediv", xi, sc]]
        yield "int-scaled", ["matmul", ["bin", "mul", Bi, sc], Ai]
        yield "int-scaled", ["einsum", "ij,j->i", Ai, ["bin", "add", ["bin", "mul", xi, sc], xi]]
    # two / three einsums with identical subscripts and shared leaves (cache reuse across einsums)
    for v in v1:
        for v2 in v1[:10]:
            yield "two-einsums", ["bin", "add", ["matmul", A, v], ["matmul", B, v2]]
    for v in v1[:10]:
        yield "three-einsums", ["bin", "add", ["bin", "add", ["matmul", A, v], ["matmul", B, v]],
                                ["matmul", ["matmul", A, B], v]]
        yield "nested", ["matmul", A, ["bin", "add", ["matmul", B, v], v]]
        yield "nested2", ["matmul", A, ["bin", "mul", ["py", 2.0], ["matmul", B, ["bin", "add", v, phv("w")]]]]
    # broadcasting einsums for rewrite_einsums_with_no_broadcasts
    for spec, shapes in [("ijk,ijk->i", [(2, 3, 1), (2, 1, 3)]), ("ij,ij->ij", [(1, 3), (2, 3)]),
                         ("ij,ij->i", [(2, 1), (2, 3)]), ("ij,jk->ik", [(2, 1), (3, 2)]), ("i,i->", [(1,), (3,)]),
                         ("ij,ij,ij->j", [(1, 3), (2, 1), (2, 3)]), ("ij,ij->ij", [(1, 1), (2, 3)]),
                         ("ii->i", [(1, 1)]), ("ij,j->i", [(2, 1), (1,)]), ("ijk,ik->j", [(2, 3, 1), (1, 2)]),
                         ("ij,ij->ji", [(2, 1), (1, 3)])]:
        ops = [["ph", "abc"[i] + "".join(map(str, s)), list(s), "float64"] for i, s in enumerate(shapes)]
        yield "bcast", ["einsum", spec, *ops]
        yield "bcast-in-sum", ["bin", "add", ["einsum", spec, *ops], ["py", 1.0]]
        ops2 = [["bin", "mul", ["py", 2.0], o] for o in ops]
        yield "bcast-operand-tree", ["einsum", spec, *ops2]


def enumerate_cases(tier, seed):
    seen, cases = set(), []
    for fam, t in gen_terms(tier):
        k = T.tkey(t)
        if k in seen:
            continue
        seen.add(k)
        cases.append({"fam": fam, "term": t})
    if tier == "quick":
        core = [c for c in cases if c["fam"] not in ("both", "two-einsums", "dot2", "mat-mat")]
        rest = [c for c in cases if c["fam"] in ("both", "two-einsums", "dot2", "mat-mat")]
        cases = core + runner.slice_by_seed(rest, seed, 4)
    return cases


ADMISSIBLE = ("Cannot distribute",)


def run_case(case):  # noqa: C901
    import pytato as pt
    from pytato.transform.einsum_distributive_law import (
        DoDistribute, DoNotDistribute, apply_distributive_property_to_einsums)
    from vf import dageval
    t = case["term"]
    viol = []
    counters = collections.Counter()
    b = T.PtBuilder()
    try:
        expr = b(t)
    except Exception as e:  # noqa: BLE001
        return {"key": t, "nontrivial": False, "outcome": "construct:" + type(e).__name__, "violations": []}
    vals = {}
    for val in values.VALUATIONS:
        inputs = T.make_inputs(t, val)
        ev = T.NpEval(inputs)
        ref = np.asarray(ev(t))
        if ev.excluded or ev.nonfinite:
            # the distributive law is not an IEEE identity once an intermediate overflows
            # to inf (inf - inf = NaN): keep to valuations whose evaluation stays finite
            continue
        base = np.asarray(dageval.DagEval(inputs)(expr))
        if values.compare(base, ref, scale=ev.scale, nred=ev.nred, min_eps=ev.eps) is not None:
            counters["dageval_vs_numpy_disagreements"] += 1
        vals[val] = (inputs, base, ev)
    if not vals:
        return {"key": t, "nontrivial": False, "outcome": "all-valuations-excluded", "violations": []}
    key0 = None
    from vf import reflect
    key0 = reflect.key(expr)

    def check(new, what, policy):
        if not isinstance(new, pt.Array):
            viol.append({"sig": {"kind": "result-type", "rewrite": what}, "msg": f"{t}: {what} returned {type(new).__name__}"})
            return
        try:
            meta_bad = new.shape != expr.shape or new.dtype != expr.dtype
        except Exception as e:  # noqa: BLE001
            viol.append({"sig": {"kind": "meta-unreadable", "rewrite": what, "error": type(e).__name__},
                         "msg": f"{t} policy {policy}: reading shape/dtype of the rewritten graph raised {type(e).__name__}: {e}"})
            return
        if meta_bad:
            viol.append({"sig": {"kind": "meta-changed", "rewrite": what},
                         "msg": f"{t} policy {policy}: {what} gives {new.shape}/{new.dtype}, was {expr.shape}/{expr.dtype}"})
            return
        for val, (inputs, base, ev) in vals.items():
            try:
                got = np.asarray(dageval.DagEval(inputs)(new))
            except Exception as e:  # noqa: BLE001
                viol.append({"sig": {"kind": "rewritten-unevaluable", "rewrite": what, "error": type(e).__name__},
                             "msg": f"{t} policy {policy}: evaluating the rewritten graph failed: {type(e).__name__}: {e}"})
                return
            bad = values.compare(got, base, scale=ev.scale, nred=max(ev.nred, 9), min_eps=ev.eps, rtol_mult=256.0)
            if bad:
                viol.append({"sig": {"kind": "value-changed", "rewrite": what},
                             "msg": f"{t}\n policy {policy}, valuation {val}: {bad}\n rewritten: {new!r}"[:1800]})
                return

    # --- apply_distributive_property_to_einsums under every policy
    outcomes = collections.Counter()
    npol = 0

    def driver(ch):
        def how(einsum):
            n = len(einsum.args)
            c = ch.choose(n + 1, f"einsum[{n} args]")
            return DoNotDistribute() if c == 0 else DoDistribute(c - 1)
        snap = reflect.key(expr)
        try:
            new = apply_distributive_property_to_einsums(expr, how)
        except (RuntimeError, NotImplementedError) as e:
            if any(a in str(e) for a in ADMISSIBLE) or isinstance(e, NotImplementedError):
                return ("refused", type(e).__name__)
            return ("exception", e)
        except Exception as e:  # noqa: BLE001
            return ("exception", e)
        if reflect.key(expr) != snap:
            return ("mutated", None)
        return ("ok", new)

    for ch, (status, payload) in explore.explore(driver, max_runs=600):
        npol += 1
        policy = ch.labels
        if status == "ok":
            changed = reflect.key(payload) != key0
            outcomes["rewritten" if changed else "unchanged"] += 1
            check(payload, "apply_distributive_property_to_einsums", policy)
        elif status == "refused":
            outcomes["refused:" + payload] += 1
        elif status == "mutated":
            viol.append({"sig": {"kind": "input-mutated", "rewrite": "distributive"}, "msg": f"{t} policy {policy}"})
        else:
            e = payload
            viol.append({"sig": progcheck.exc_sig("apply_distributive_property_to_einsums", e),
                         "msg": f"{t} policy {policy}: " + progcheck.exc_msg("apply_distributive_property_to_einsums", e)})
            outcomes["exception"] += 1
    if npol >= 600:
        counters["policy_cap_hit(600)"] += 1
    # --- rewrite_einsums_with_no_broadcasts
    try:
        new = pt.rewrite_einsums_with_no_broadcasts(expr)
        outcomes["nobcast-" + ("rewritten" if reflect.key(new) != key0 else "unchanged")] += 1
        check(new, "rewrite_einsums_with_no_broadcasts", None)
        # result must indeed have no broadcasting einsum left
        for n in reflect.walk(new):
            if isinstance(n, pt.Einsum):
                lens = {}
                for acc, arg in zip(n.access_descriptors, n.args):
                    for d, ln in zip(acc, arg.shape):
                        lens.setdefault(d, set()).add(ln)
                if any(len(v) > 1 for v in lens.values()):
                    viol.append({"sig": {"kind": "broadcast-left", "rewrite": "rewrite_einsums_with_no_broadcasts"},
                                 "msg": f"{t}: an einsum with broadcasting axes remains: {n!r}"[:600]})
    except Exception as e:  # noqa: BLE001
        viol.append({"sig": progcheck.exc_sig("rewrite_einsums_with_no_broadcasts", e),
                     "msg": f"{t}: " + progcheck.exc_msg("rewrite_einsums_with_no_broadcasts", e)})
    counters.update({"policies": npol})
    oc = list(outcomes.elements()) or ["none"]
    return {"key": t, "evaluations": npol + 1, "keys": [[t, i] for i in range(npol)],
            "nontrivial": outcomes["rewritten"] > 0,
            "outcome": oc, "violations": viol[:5], "counters": dict(counters),
            "sample": {"term": t, "policies": npol, "outcomes": dict(outcomes)}}


def vacuity(summary):
    oc = summary["outcomes"]
    if oc.get("rewritten", 0) < 200 or oc.get("nobcast-rewritten", 0) < 5:
        return f"too few effective rewrites: {dict(oc)}"
    return None
