"""C07 — tags carry no semantics; implementation strategies are equivalent."""
from __future__ import annotations

import collections
import warnings

import numpy as np

from vf import explore, progcheck, runner, space, values
from vf import terms as T

warnings.filterwarnings("ignore")

PROPERTY = "C07"
LEVEL = "exploration"
TECHNIQUE = ("exhaustive exploration of tag placements: for each program of a bounded program space the explorer owns one "
             "choice point per node (implementation strategy / naming / user tag alphabet), per axis and per reduction "
             "descriptor; all assignments for programs with <=2 non-input nodes, all placements of <=N tags (deviation "
             "bound, iterated) for larger ones; every tagged variant goes through generate_loopy -> C -> gcc and is "
             "compared with the untagged variant and with NumPy")
RULE = ("one case = one program; executions = tag assignments enumerated by stateless DFS over the choice points with "
        "the stated deviation bound; oracle per execution: same output names, shapes, dtypes and values as the program "
        "with all tags stripped (exact for ints, tolerance for floats), code generation must not fail where the "
        "untagged program's does not; distinct = (program, assignment); non-trivial = tagged variant compiled, ran and "
        "was compared")
ASSUMPTIONS = [
    "C glue of vf/cexec.py; valuation alphabet {ramp, edge}",
    "programs whose untagged variant already fails (C01's known findings) are skipped, not blamed on tags",
    "deviation bound: <=2 (quick) / <=3 (thorough) tagged sites for programs with more than 2 non-input nodes",
]

NODE_ALPHA = [None, ["stored"], ["inlined"], ["subst"], ["prefix", "t"], ["named", "FRESH"], ["user", "u"],
              ["stored+named"], ["stored+prefix"], ["subst+prefix"]]
NODE_ALPHA_QUICK = [None, ["stored"], ["inlined"], ["subst"], ["named", "FRESH"], ["user", "u"],
                    ["stored+named"], ["subst+prefix"]]
INPUT_ALPHA = [None, ["user", "in"], ["stored"]]
MAXDEV = {"quick": 2, "thorough": 3}


def bounds(tier):
    return {"node_alphabet": len(NODE_ALPHA), "max_tagged_sites_large_programs": MAXDEV[tier],
            "exhaustive_for_programs_with_nodes<=": 2}


def special_programs():
    ph = space.ph
    x = ph("a", (2, 3), "float64")
    y = ph("b", (3,), "float64")
    z = ph("c", (2, 3), "int32")
    e = ["bin", "mul", x, ["py", 2.0]]
    progs = [
        # a (stored) node used by two reductions
        [["out", ["bin", "add", ["red", "sum", e, 1], ["red", "amax", e, 1]]]],
        # a substitution inside a reduction, reduction of a reduction
        [["out", ["red", "sum", ["bin", "add", e, y], 0]]],
        [["out", ["red", "sum", ["red", "sum", ["bin", "mul", x, x], 1], 0]]],
        [["out", ["bin", "add", ["red", "sum", x, 1], ["red", "sum", x, 1]]]],
        # several outputs sharing intermediates
        [["o1", ["bin", "add", e, y]], ["o2", ["fn", "sin", e]], ["o3", e]],
        [["o1", ["index", e, [["s", None, None, -1], 1]]], ["o2", ["roll", e, 1, 1]]],
        # einsum / matmul over computed operands
        [["out", ["matmul", e, ["transpose", e, [1, 0]]]]],
        [["out", ["einsum", "ij,j->i", ["bin", "add", x, x], ["fn", "exp", y]]]],
        # integer programs (exact comparison)
        [["out", ["bin", "add", ["red", "sum", ["bin", "mul", z, z], 0], ["red", "amin", z, 0]]]],
        [["out", ["where", ["cmp", "less", z, ["py", 1]], ["bin", "mul", z, ["py", 3]], ["neg", z]]]],
        [["out", ["concat", 0, ["bin", "add", z, z], ["roll", z, 1, 0]]]],
        [["out", ["reshape", ["bin", "sub", z, ["py", 1]], [3, 2], "F"]]],
        [["out", ["stack", 0, ["red", "sum", z, 1], ["red", "prod", z, 1]]]],
        [["out", ["pad", ["bin", "mul", z, ["py", 2]], 1, 0]]],
        [["out", ["index", ["bin", "add", x, x], [["a", ["dwv", "ia", "int32", [1, 0, -1]]], ["s", None, None, None]]]]],
        [["out", ["csrmm", [2, 3], ["dw", "cv", [3], "float64"], ["dwv", "cc", "int32", [0, 2, 1], [3]],
                  ["dwv", "cr", "int32", [0, 2, 3], [3]], ["bin", "add", y, y]]]],
        [["out", ["broadcast_to", ["red", "sum", x, 0], [2, 3]]], ["s", ["red", "sum", x, 0]]],
        # scalar intermediates
        [["out", ["bin", "mul", x, ["red", "sum", y, None]]]],
        [["out", ["bin", "add", ["bin", "mul", ["red", "amax", x, None], x], ["red", "amin", x, None]]]],
        # mixed-dtype arithmetic (casts must survive every strategy)
        [["out", ["bin", "add", ["bin", "add", z, ph("f", (3,), "float32")], ["py", 1]]]],
        [["out", ["bin", "mul", ["bin", "add", ph("u", (3,), "int32"), ph("v", (3,), "int64")], ph("f", (3,), "float32")]]],
        [["out", ["bin", "truediv", ["bin", "add", z, z], ["bin", "sub", z, ["py", 7]]]]],
        [["out", ["bin", "add", ["astype", z, "float32"], ["astype", ["bin", "mul", z, z], "float64"]]]],
    ]
    # same-form twins: nodes with identical scalar expressions over *different* operands (a strategy that emits or caches
    # something per expression form must not confuse them), also under different ranks and as separate outputs
    a, b, c, d = (ph(n, (3,), "float64") for n in "abcd")
    a2, b2 = ph("p", (2, 3), "float64"), ph("q", (2, 3), "float64")
    i1, i2, i3, i4 = (ph(n, (3,), "int32") for n in "ijkl")
    progs += [
        [["out", ["bin", "mul", ["bin", "sub", a, b], ["bin", "sub", c, d]]]],
        [["o1", ["bin", "sub", a, b]], ["o2", ["bin", "sub", c, d]], ["o3", ["bin", "sub", b, a]]],
        [["out", ["bin", "add", ["red", "sum", ["bin", "mul", a, b], None], ["red", "sum", ["bin", "mul", c, d], None]]]],
        [["out", ["bin", "add", ["bin", "sub", a2, b2], ["bin", "sub", a, b]]]],
        [["out", ["bin", "sub", ["bin", "mul", i1, i2], ["bin", "mul", i3, i4]]]],
        [["out", ["where", ["cmp", "less", a, b], ["fn", "sin", c], ["fn", "sin", d]]]],
    ]
    # shape-preserving re-indexings of a square operand (a strategy that recognises "plain copies" must not take a
    # transposed / rolled / reversed read for one), consumed asymmetrically
    sq, tq = ph("s", (3, 3), "float64"), ph("t", (3, 3), "float64")
    sqi = ph("si", (3, 3), "int32")
    for shuffled in (["T", sq], ["transpose", sq, [1, 0]], ["einsum", "ij->ji", sq], ["roll", sq, 1, 0], ["roll", sq, 1, 1],
                     ["index", sq, [["s", None, None, -1]]], ["index", sq, [["s", None, None, None], ["s", None, None, -1]]],
                     ["reshape", sq, [3, 3], "F"], ["T", ["bin", "mul", sq, ["py", 2.0]]], ["T", ["red", "sum", ["stack", 0, sq, tq], 0]],
                     ["T", sqi]):
        progs.append([["out", ["bin", "sub", ["bin", "mul", shuffled, ["py", 2.0] if shuffled[-1] is not sqi else ["py", 2]],
                               tq if shuffled[-1] is not sqi else sqi]]])
    return progs


def enumerate_cases(tier, seed):
    cases = [{"fam": "special", "outs": p} for p in special_programs()]
    l2 = [{"fam": f, "outs": [["out", t]]} for f, t in space.l2("quick")]
    reps = space.representatives("quick")
    l1 = []
    for sig in sorted(reps, key=repr):
        for f, t in reps[sig]:
            l1.append({"fam": "rep:" + f, "outs": [["out", t]]})
    if tier == "quick":
        l2 = runner.slice_by_seed(l2, seed, 4000)
        l1 = runner.slice_by_seed(l1, seed, 16)
    else:
        l2 = runner.slice_by_seed(l2, seed, 60)
    return cases + l1 + l2


def is_input_term(t):
    return t[0] in ("ph", "dw", "dwv", "dwalias", "sp")


def run_case(case):  # noqa: C901
    import pytato as pt
    from vf import tagdefs
    tier = __import__("os").environ.get("VERIF_TIER", "quick")
    outs = case["outs"]
    viol = []
    counters = collections.Counter()
    base = progcheck.run_c_program(outs, valuations=["ramp", "edge", "wide"], blame=False)
    if base["outcome"] != "ok":
        return {"key": outs, "nontrivial": False, "outcome": "baseline:" + base["outcome"].split(":")[0],
                "violations": []}
    base_res = {(repr(sz), val): got for sz, val, got in base["results"]}
    base_arrays = base["arrays"]
    # count the sites: distinct sub-terms in construction order
    site_terms = []
    for _, t in outs:
        for s in T.all_subterms(t):
            if s[0] in ("py", "nps", "s", "a"):
                continue
            if T.tkey(s) not in [T.tkey(x) for x in site_terms]:
                site_terms.append(s)
    ninner = sum(1 for s in site_terms if not is_input_term(s))
    # deviation budget: a strategy/naming tag on a computed node costs 1, a tag on an input, an
    # axis or a reduction descriptor costs 2
    max_dev = (MAXDEV.get(tier, 2) + 1) if ninner <= 1 else MAXDEV.get(tier, 2)
    fresh = [0]

    node_alpha = NODE_ALPHA_QUICK if tier == "quick" else NODE_ALPHA

    def driver(ch):
        assignment = []
        produced = set()

        def on_node(t, ary):
            r = _on_node(t, ary)
            produced.add(id(r))
            return r

        def _on_node(t, ary):
            if not isinstance(ary, pt.Array):
                return ary
            if id(ary) in produced:
                # the API returned an operand unchanged (roll by 0, identity transpose, +x):
                # this site is not a node of its own
                return ary
            alpha = INPUT_ALPHA if is_input_term(t) else node_alpha
            c = ch.choose(len(alpha), f"{t[0]}", cost=1 if not is_input_term(t) else 2)
            spec = alpha[c]
            if spec is not None:
                assignment.append((t[0], spec))
                kinds = spec[0].split("+")
                for k in kinds:
                    if k == "named":
                        fresh[0] += 1
                        ary = tagdefs.apply(ary, ["named", f"nm{fresh[0]}"])
                    elif k == "prefix":
                        ary = tagdefs.apply(ary, ["prefix", "t"])
                    elif k == "user":
                        ary = tagdefs.apply(ary, ["user", spec[1] if len(spec) > 1 else "u"])
                    else:
                        ary = tagdefs.apply(ary, [k])
            if ary.ndim and not is_input_term(t):
                a = ch.choose(2, "axis", cost=2)
                if a:
                    ary = ary.with_tagged_axis(ary.ndim - 1, tagdefs.UserAxisTag("ax"))
                    assignment.append((t[0], "axis-tag"))
            if isinstance(ary, pt.IndexLambda) and ary.var_to_reduction_descr:
                r = ch.choose(2, "redn", cost=2)
                if r:
                    ary = tagdefs.apply(ary, ["redn", "r"])
                    assignment.append((t[0], "redn-tag"))
            return ary
        fresh[0] = 0
        res = progcheck.run_c_program(outs, on_node=on_node, valuations=["ramp", "edge", "wide"], blame=False)
        return assignment, res

    nexec = 0
    cap = 1500
    for ch, (assignment, res) in explore.explore(driver, max_dev=max_dev, max_runs=cap):
        nexec += 1
        where = f"program {outs}\n tags {assignment} (choices {ch.choices})"
        if res["outcome"] not in ("ok",):
            if res["outcome"].startswith(("rejected", "excluded")):
                counters["tagged-variant-" + res["outcome"].split(":")[0]] += 1
                vi = res.get("reject") or {}
                viol.append({"sig": {"kind": "tagged-variant-rejected", "error": vi.get("error"), "where": vi.get("where")},
                             "msg": f"{where}: constructing the tagged program was refused ({res['outcome']}) {res.get('reject')}"})
                continue
            for v in res["violations"]:
                if (v["sig"].get("where") == "pytato/codegen.py:_generate_name_for_temp"
                        and any("named" in str(a[1]) for a in assignment)):
                    # documented: a Named tag yields exactly that name *or an error*
                    counters["named-tag-refused-with-error"] += 1
                    continue
                sig = dict(v["sig"])
                sig["tags"] = sorted({a[1][0] if isinstance(a[1], list) else a[1] for a in assignment})
                if v["sig"].get("cause") == "int-and-float32-operands-evaluated-in-float":
                    # the tagged variant is wrong against NumPy (to float32 precision) where the untagged one is right: the
                    # strategy decides whether the mixed int/float32 operation is evaluated in double or in float
                    sig = {"kind": "tag-changes-value", "cause": "int-and-float32-operands-evaluated-in-c-float",
                           "operand": v["sig"].get("operand")}
                if (sig.get("where") == "loopy/target/c/codegen/expression.py:map_comparison" and sig.get("error") == "TypeError"
                        and any(s_[0] == "cmp" and any(isinstance(x, list) and x[:1] == ["py"] and isinstance(x[1], bool) for x in s_[2:])
                                for _n, t_ in outs for s_ in T.all_subterms(t_))):
                    # C01's known finding (comparison with a Python bool scalar): the untagged program only escapes it because
                    # its other operand is an inlined constant
                    sig = {"kind": "exception", "cause": "comparison-with-python-bool-scalar", "error": "TypeError"}
                viol.append({"sig": sig, "msg": f"{where}: untagged program is fine but tagged variant: {v['msg'][:1200]}"})
            continue
        for n in base_arrays:
            ta, ba = res["arrays"][n], base_arrays[n]
            if ta.shape != ba.shape or ta.dtype != ba.dtype:
                viol.append({"sig": {"kind": "tag-changes-meta"}, "msg": f"{where}: output {n} {ta.shape}/{ta.dtype} vs {ba.shape}/{ba.dtype}"})
        for sz, val, got in res["results"]:
            b = base_res.get((repr(sz), val))
            if b is None:
                continue
            for n in b:
                if b[n].dtype.kind in "biu":
                    same = np.array_equal(b[n], got[n])
                    bad = None if same else f"got {got[n].ravel()[:8]} untagged {b[n].ravel()[:8]}"
                else:
                    # same program, same arithmetic: only a few ulps of the *result* dtype are allowed
                    # between implementation strategies
                    bad = values.compare(got[n], b[n], scale=float(np.nanmax(np.abs(b[n]))) if b[n].size else 1.0,
                                         nred=8)
                if bad:
                    sig = {"kind": "tag-changes-value",
                           "tags": sorted({a[1][0] if isinstance(a[1], list) else a[1] for a in assignment})}
                    mixed = None
                    for _n, t_ in outs:
                        mixed = mixed or progcheck.c_promotion_narrower(t_, progcheck.EINSUM_LIKE)
                    if mixed is not None and b[n].dtype == np.float64 and not values.compare(
                            got[n], b[n], scale=float(np.nanmax(np.abs(b[n]))) if b[n].size else 1.0, nred=8,
                            min_eps=float(np.finfo(np.float32).eps)):
                        # the two variants agree to float32 precision and the program mixes >=32-bit integers with float32:
                        # one of them evaluates in C float what NumPy evaluates in float64
                        sig = {"kind": "tag-changes-value", "cause": "int-and-float32-operands-evaluated-in-c-float", **mixed}
                    viol.append({"sig": sig, "msg": f"{where}: output {n} valuation {val}: {bad}"})
        if len(viol) > 12:
            break
    if nexec >= cap:
        counters["assignment_cap_hit(%d)" % cap] += 1
    counters["assignments"] = nexec
    return {"key": None, "evaluations": nexec, "keys": [[outs, i] for i in range(nexec)],
            "nontrivial": nexec > 1, "outcome": "explored" if not viol else "violation", "violations": viol[:6],
            "counters": dict(counters),
            "sample": {"program": outs, "assignments": nexec, "sites": len(site_terms), "max_dev": max_dev}}


def _has_f32(outs):
    return any(s[0] == "ph" and s[3] == "float32" or s[0] == "astype" and s[2] == "float32" or
               (s[0] == "nps" and s[1] == "float32") or (s[0] in ("full", "zeros", "ones") and "float32" in s)
               for _, t in outs for s in T.all_subterms(t))


def vacuity(summary):
    if summary["evaluations"] < 20 * max(1, summary["outcomes"].get("explored", 0)) * 0.2:
        return f"too few assignments explored: {summary['evaluations']}"
    return None
