"""C16 — symbolic shapes: decisions are sound and one kernel serves every size."""
from __future__ import annotations

import collections
import itertools
import warnings

import numpy as np

from vf import progcheck, runner, space
from vf import terms as T

warnings.filterwarnings("ignore")

PROPERTY = "C16"
LEVEL = "exploration"
TECHNIQUE = ("bounded exhaustive enumeration: (a) all ordered pairs of affine shape expressions over 1..3 size parameters "
             "with bounded coefficients, each in several syntactic forms, decided by are_shape_components_equal and by "
             "the call sites that use it (broadcasting, stack, concatenate, einsum, function calls) and compared with "
             "equality of coefficient vectors (validated on an affinely spanning grid); (b) every node's inferred shape of "
             "every symbolic-shape program evaluated at every size valuation vs NumPy's concrete shape; (c) each program "
             "compiled ONCE and executed for ALL size valuations, compared with NumPy")
RULE = ("cases: 'pairs' batches (expression pair decisions), 'sites' batches (call-site acceptance), 'prog' (one symbolic "
        "program: shape inference on all valuations 1..6^k + one compiled kernel run on all valuations incl. 0 where NumPy "
        "admits it); distinct = distinct pairs / programs; non-trivial = decision compared or kernel executed")
ASSUMPTIONS = [
    "affine forms are decided completely by their values on the grid {0, e_1..e_k, (1..1)} (used to validate the "
    "expression builder against the intended coefficient vector)",
    "size valuations bounded by 1..6 per parameter (0 where the program admits it)",
    "C glue of vf/cexec.py, valuation 'ramp' for (c)",
]
BATCH = 400


def bounds(tier):
    return {"coeff_range_2params": [-2, 2] if tier == "quick" else [-3, 3], "sizes": [1, 6]}


PARAMS = ["n", "m", "k"]


def affine_exprs(nparams, lo, hi):
    return [c for c in itertools.product(range(lo, hi + 1), repeat=nparams + 1)]   # (c1..ck, c0)


FORMS = ("canonical", "repeated-add", "split-const", "scaled", "reordered")


def build_expr(coeffs, form, sp):
    """pytato scalar expression (or int) for sum(ci*pi)+c0 in the given syntactic form"""
    *cs, c0 = coeffs
    ps = [sp[PARAMS[i]] for i in range(len(cs))]
    if form == "canonical":
        e = c0
        for c, p in zip(cs, ps):
            if c:
                e = e + c * p
        return e
    if form == "reordered":
        e = None
        for c, p in reversed(list(zip(cs, ps))):
            if c:
                e = p * c if e is None else p * c + e
        return c0 if e is None else (e + c0 if c0 else e)
    if form == "repeated-add":
        e = None
        for c, p in zip(cs, ps):
            for _ in range(abs(c)):
                if e is None:
                    e = p if c > 0 else 0 - p
                else:
                    e = e + p if c > 0 else e - p
        if e is None:
            return c0
        return e + c0 if c0 else e
    if form == "split-const":
        e = 1
        for c, p in zip(cs, ps):
            e = e + c * p
        return e + (c0 - 1)
    if form == "scaled":
        base = c0
        for c, p in zip(cs, ps):
            base = base + c * p
        if isinstance(base, int):
            return base
        return base * 2 - base
    raise ValueError(form)


def enumerate_cases(tier, seed):
    cases = []
    # (a) pairs
    if tier == "quick":
        specs = [(1, -3, 3), (2, -2, 2)]
    else:
        specs = [(1, -3, 3), (2, -3, 3), (3, -1, 1)]
    for nparams, lo, hi in specs:
        ex = affine_exprs(nparams, lo, hi)
        pairs = [(a, b) for a in ex for b in ex]
        if tier == "quick" and nparams == 2:
            # full product is 15 625 pairs; all pairs where the two differ in at most one
            # coefficient or are equal (the decisive ones) + the seed's slice of the rest
            near = [(a, b) for a, b in pairs if sum(x != y for x, y in zip(a, b)) <= 1]
            rest = [(a, b) for a, b in pairs if sum(x != y for x, y in zip(a, b)) > 1]
            pairs = near + runner.slice_by_seed(rest, seed, 4)
        for i in range(0, len(pairs), BATCH):
            cases.append({"kind": "pairs", "nparams": nparams, "pairs": pairs[i:i + BATCH]})
    # call sites on all 1-parameter pairs (+ 2-parameter near pairs)
    ex1 = affine_exprs(1, -2, 2)
    sp1 = [(a, b) for a in ex1 for b in ex1]
    for i in range(0, len(sp1), 100):
        cases.append({"kind": "sites", "nparams": 1, "pairs": sp1[i:i + 100]})
    ex2 = affine_exprs(2, -1, 1)
    sp2 = [(a, b) for a in ex2 for b in ex2 if sum(x != y for x, y in zip(a, b)) <= 1]
    for i in range(0, len(sp2), 100):
        cases.append({"kind": "sites", "nparams": 2, "pairs": sp2[i:i + 100]})
    # (b), (c)
    for fam, outs in space.symbolic_programs(tier):
        cases.append({"kind": "prog", "fam": fam, "outs": outs})
    return cases


def grid(nparams):
    pts = [tuple([0] * nparams)]
    for i in range(nparams):
        pts.append(tuple(1 if j == i else 0 for j in range(nparams)))
    pts.append(tuple([1] * nparams))
    pts.append(tuple(range(2, 2 + nparams)))
    return pts


def value_of(e, sizes):
    from vf import dageval
    if isinstance(e, (int, np.integer)):
        return int(e)
    return int(dageval.DagEval({}, sizes)(e))


def run_pairs(case):
    import pytato as pt
    from pytato.utils import are_shape_components_equal
    nparams = case["nparams"]
    sp = {p: pt.make_size_param(p) for p in PARAMS[:nparams]}
    viol, keys = [], []
    n = 0
    cache = {}

    def get(c, form):
        if (c, form) not in cache:
            e = build_expr(c, form, sp)
            # validate the builder on the spanning grid
            for pt_ in grid(nparams):
                sizes = dict(zip(PARAMS, pt_))
                want = sum(ci * v for ci, v in zip(c[:-1], pt_)) + c[-1]
                got = value_of(e, sizes)
                if got != want:
                    raise AssertionError(f"builder: {c} form {form} at {sizes}: {got} != {want}")
            cache[(c, form)] = e
        return cache[(c, form)]
    for a, b in case["pairs"]:
        a, b = tuple(a), tuple(b)
        want = a == b
        for fa, fb in (("canonical", "canonical"), ("canonical", "repeated-add"), ("split-const", "scaled"),
                       ("reordered", "canonical"), ("scaled", "repeated-add")):
            ea, eb = get(a, fa), get(b, fb)
            n += 1
            try:
                got = are_shape_components_equal(ea, eb)
            except Exception as e:  # noqa: BLE001
                viol.append({"sig": {**progcheck.exc_sig("are_shape_components_equal", e)},
                             "msg": f"are_shape_components_equal({a} [{fa}], {b} [{fb}]) raised {type(e).__name__}: {e}"})
                continue
            if bool(got) != want:
                viol.append({"sig": {"kind": "wrong-decision", "answer": bool(got), "forms": [fa, fb]},
                             "msg": f"are_shape_components_equal says {got} for coefficient vectors {a} [{fa}] and {b} [{fb}] "
                                    f"(params {PARAMS[:nparams]}, last entry = constant)"})
        keys.append([a, b])
    return {"evaluations": n, "keys": keys, "outcome": ["pairs-decided"] * len(keys), "violations": viol[:8],
            "sample": {"pair": case["pairs"][0], "forms": list(FORMS)}}


def run_sites(case):  # noqa: C901
    import pytato as pt
    nparams = case["nparams"]
    sp = {p: pt.make_size_param(p) for p in PARAMS[:nparams]}
    viol, keys, ocs = [], [], []
    n = 0

    def nonneg(c):
        # admissible as a shape: non-negative on every admissible valuation (all params >= 0)
        return all(ci >= 0 for ci in c)
    for a, b in case["pairs"]:
        a, b = tuple(a), tuple(b)
        if not (nonneg(a) and nonneg(b)):
            continue
        ea, eb = build_expr(a, "canonical", sp), build_expr(b, "repeated-add", sp)
        same = a == b
        one_a = a == tuple([0] * nparams + [1])
        one_b = b == tuple([0] * nparams + [1])
        x = pt.make_placeholder("x", (ea, 3), np.float64)
        y = pt.make_placeholder("y", (eb, 3), np.float64)
        sites = {
            "broadcast": (lambda: x + y, same or one_a or one_b),
            "stack": (lambda: pt.stack([x, y]), same),
            "concatenate-other-axis": (lambda: pt.concatenate([x, y], axis=1), same),
            "einsum": (lambda: pt.einsum("ij,ij->j", x, y), same or one_a or one_b),
            # pytato's matmul is an einsum, whose axis matching admits a unit axis
            "matmul": (lambda: pt.make_placeholder("p", (3, ea), np.float64) @ y, same or one_a or one_b),
        }

        def call_site():
            from pytato.function import trace_call  # noqa: F401
            f = pt.trace_call(lambda u: 2 * u, pt.make_placeholder("u", (ea, 3), np.float64))
            # call the traced definition again with an argument of the other shape
            fdef = f._container.function if hasattr(f, "_container") else None
            if fdef is None:
                raise RuntimeError("no function definition")
            return fdef(**{next(iter(fdef.parameters)): y})
        sites["function-call"] = (call_site, same)
        # the same decisions with the pair on the *second* axis, behind an axis whose (symbolic) lengths agree: a comparison
        # of whole shapes must look at every axis
        n0 = sp[PARAMS[0]]
        x2 = pt.make_placeholder("x2", (n0 + 1, ea), np.float64)
        y2 = pt.make_placeholder("y2", (1 + n0, eb), np.float64)

        def call_site2():
            f = pt.trace_call(lambda u: 2 * u, pt.make_placeholder("u2", (n0 + 1, ea), np.float64))
            fdef = f._container.function
            return fdef(**{next(iter(fdef.parameters)): y2})

        def whole_shapes():
            from pytato.utils import are_shapes_equal
            if not are_shapes_equal(x2.shape, y2.shape):
                raise ValueError("shapes differ")
        sites.update({
            "are_shapes_equal(second axis)": (whole_shapes, same),
            "broadcast(second axis)": (lambda: x2 + y2, same or one_a or one_b),
            "stack(second axis)": (lambda: pt.stack([x2, y2]), same),
            "concatenate-other-axis(second axis)": (lambda: pt.concatenate([x2, y2], axis=0), same),
            "function-call(second axis)": (call_site2, same),
        })
        for name, (fn, want) in sites.items():
            n += 1
            try:
                fn()
                got = True
            except (ValueError, TypeError, NotImplementedError, IndexError) as e:
                got = False
                err = e
            except Exception as e:  # noqa: BLE001
                viol.append({"sig": {**progcheck.exc_sig("site:" + name, e)},
                             "msg": f"{name} with axis lengths {a} vs {b}: {type(e).__name__}: {e}"})
                continue
            ocs.append(name + (":accepted" if got else ":rejected"))
            if got != want:
                if want and not got and isinstance(err, NotImplementedError):
                    ocs[-1] = name + ":not-implemented"
                    continue
                viol.append({"sig": {"kind": "site-decision", "site": name, "accepted": got},
                             "msg": f"{name}: axis lengths with coefficient vectors {a} and {b} (params {PARAMS[:nparams]}) "
                                    f"were {'accepted' if got else 'rejected'}; they are {'equal' if same else 'different'}"
                                    + ("" if got else f" ({type(err).__name__}: {err})")})
        keys.append([a, b])
    return {"evaluations": n, "keys": keys, "outcome": ocs or ["none"], "violations": viol[:8],
            "sample": {"pair": case["pairs"][0]}}


def run_prog(case):  # noqa: C901
    import pytato as pt
    from vf import dageval
    outs = case["outs"]
    viol = []
    counters = collections.Counter()
    names = sorted({n for _, t in outs for n in T.size_params_of(t)})
    try:
        b, arrays = progcheck.build_outputs(outs)
    except (NotImplementedError, ValueError, TypeError, IndexError) as e:
        return {"key": outs, "nontrivial": False, "outcome": "rejected:" + type(e).__name__, "violations": [],
                "sample": {"program": outs, "rejected": str(e)[:200]}}
    except Exception as e:  # noqa: BLE001
        return {"key": outs, "nontrivial": False, "outcome": "construct-exception",
                "violations": [{"sig": progcheck.exc_sig("construct", e), "msg": progcheck.exc_msg("construct", e, outs)}]}
    vals = [dict(zip(names, v)) for v in itertools.product(range(1, 7), repeat=len(names))]
    # (b) inferred shape of every node at every valuation
    for (t, node) in b.nodes:
        if not isinstance(node, pt.Array):
            continue
        for sizes in vals:
            try:
                want = T.np_shape_dtype(t, sizes)[0]
            except Exception:  # noqa: BLE001
                counters["numpy-rejects-subterm"] += 1
                break
            try:
                got = dageval.DagEval({}, sizes).shape(node.shape)
            except Exception as e:  # noqa: BLE001
                viol.append({"sig": {"kind": "shape-unevaluable", "node": t[0]},
                             "msg": f"shape {node.shape} of {t} at {sizes}: {type(e).__name__}: {e}"})
                break
            counters["shape_evaluations"] += 1
            if tuple(got) != tuple(want):
                viol.append({"sig": {"kind": "inferred-shape", "node": t[0]},
                             "msg": f"{t}: inferred shape {node.shape} evaluates to {got} at {sizes}; NumPy gives {want}"})
                break
    # (c) one kernel, every size
    sizes_list = list(vals)
    zero = [dict(zip(names, v)) for v in itertools.product(range(0, 2), repeat=len(names)) if 0 in v]
    sizes_ok = []
    for sizes in zero + sizes_list:
        try:
            progcheck.reference(outs, "ramp", sizes)
            sizes_ok.append(sizes)
        except Exception:  # noqa: BLE001
            counters["numpy-rejects-size"] += 1
    res = progcheck.run_c_program(outs, sizes_list=sizes_ok, valuations=["ramp"], prebuilt=(b, arrays), blame=False)
    oc = res["outcome"]
    for v in res["violations"]:
        sig = dict(v["sig"])
        if sig.get("kind") != "exception":
            sig["family"] = case["fam"]
        viol.append({"sig": sig, "msg": v["msg"]})
    counters["kernel_runs"] = res.get("nrun", 0)
    return {"key": outs, "nontrivial": res.get("nrun", 0) > 1, "evaluations": 1 + res.get("nrun", 0),
            "outcome": "prog:" + oc.split(":")[0], "violations": viol[:6], "counters": dict(counters),
            "sample": {"program": outs, "sizes_run": res.get("nrun"), "outcome": oc}}


def run_case(case):
    return {"pairs": run_pairs, "sites": run_sites, "prog": run_prog}[case["kind"]](case)


def vacuity(summary):
    oc = summary["outcomes"]
    if oc.get("pairs-decided", 0) < 1000 or oc.get("prog:ok", 0) < 30:
        return f"too little decided: {dict(oc)}"
    return None
