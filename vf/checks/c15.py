"""C15 — names in generated code are faithful, unique and collision-free."""
from __future__ import annotations

import collections
import itertools
import re
import warnings

import numpy as np

from vf import progcheck, runner, values
from vf import terms as T

warnings.filterwarnings("ignore")

PROPERTY = "C15"
LEVEL = "exploration"
TECHNIQUE = ("bounded exhaustive enumeration of namings: 12 program skeletons that make the generator invent names (stored "
             "temporaries, reductions, several unnamed data wrappers, substitution rules, multiple outputs, output = "
             "input, one array under two keys, size parameters, Named / PrefixNamed tags) x all assignments of names "
             "from an adversarial alphabet (names close to generated ones, names derived from the other user names, "
             "reserved patterns) to the user-controlled positions, with <=1 / <=2 positions deviating from safe "
             "defaults; each naming generates a kernel that is inspected and executed")
RULE = ("one case = (skeleton, naming); oracle on the kernel object and on execution: every named placeholder / size "
        "parameter is an argument of exactly that name, every output key an output argument, arguments / temporaries / "
        "inames / substitution rules pairwise distinct, Named tag => temporary literally so named (or an error), two "
        "distinct inputs with one name => NameClashError, bound arguments are the wrapped objects with unchanged bytes, "
        "values equal NumPy; namings in which two user names coincide or a reserved pattern is used may be rejected "
        "with an exception but must never compute a wrong value; distinct = distinct (skeleton, naming); non-trivial = "
        "kernel generated, inspected and executed")
ASSUMPTIONS = [
    "C glue of vf/cexec.py; valuation 'ramp' (pairwise distinct entries make an aliased array visible)",
    "C keywords as user names are outside the property (target-language matter)",
    "deviation bound: quick = all single deviations + pairs that coincide or are derived from each other; "
    "thorough = all pairs",
]

POSITIONS = ("p1", "p2", "sp", "o1", "o2", "t1", "pf")
DEFAULTS = {"p1": "a", "p2": "b", "sp": "n", "o1": "out", "o2": "res", "t1": "tn", "pf": "pre"}
STATIC = ["pt_temp", "temp_0", "_pt_temp", "_pt_temp_0", "_pt_data", "_pt_data_0", "_pt_out", "_pt_in", "_pt_subst",
          "_pt_sum_r0", "_pt_sum_r0_lbound", "_pt_sum_r0_ubound", "acc__pt_sum_r0", "_pt_max_r0", "_r0", "_in0", "_0", "_1",
          "in_0", "i", "x", "x_0", "x_dim0", "acc_x", "x_offset", "x_store"]
RESERVED = re.compile(r"^(_pt_.*|_[0-9]+|_r[0-9]+|_in[0-9]+)$")


def derived(name):
    return [name, name + "_0", name + "_dim0", name + "_dim1", "acc_" + name, name + "_offset", name + "_store",
            name + "_1"]


def skeletons():
    """name -> (positions used, builder(names) -> outs)"""
    def P(n, shape=(2, 3), dt="float64", role=""):
        # the trailing marker makes same-named placeholders at different positions distinct
        # objects (two *distinct* inputs with one name), as a user would create them
        return ["ph", n, list(shape), dt, "role:" + role]
    S = collections.OrderedDict()
    S["stored-temp"] = (("p1", "p2", "o1"), lambda N: [[N["o1"], ["bin", "add", ["tag", ["stored"], ["bin", "mul", P(N["p1"], role="p1"), ["py", 2.0]]], P(N["p2"], role="p2")]]])
    S["reduction"] = (("p1", "p2", "o1"), lambda N: [[N["o1"], ["bin", "add", ["red", "sum", P(N["p1"], role="p1"), 1], ["red", "amax", P(N["p2"], role="p2"), 1]]]])
    S["data-wrappers"] = (("p1", "o1", "o2"), lambda N: [[N["o1"], ["bin", "add", ["bin", "add", P(N["p1"], role="p1"), ["dw", "w1", [2, 3], "float64"]], ["dw", "w2", [3], "float64"]]],
                                                         [N["o2"], ["bin", "mul", ["dw", "w1", [2, 3], "float64"], ["dwalias", ["dw", "w1", [2, 3], "float64"], "copy"]]]])
    S["substitution"] = (("p1", "p2", "o1", "pf"), lambda N: [[N["o1"], ["bin", "mul", ["tag", ["prefix", N["pf"]], ["tag", ["subst"], ["bin", "add", P(N["p1"], role="p1"), ["py", 1.0]]]], P(N["p2"], role="p2")]]])
    S["two-outputs"] = (("p1", "p2", "o1", "o2"), lambda N: [[N["o1"], ["bin", "add", P(N["p1"], role="p1"), P(N["p2"], role="p2")]], [N["o2"], ["bin", "mul", P(N["p1"], role="p1"), P(N["p2"], role="p2")]]])
    S["output-is-input"] = (("p1", "o1", "o2"), lambda N: [[N["o1"], P(N["p1"], role="p1")], [N["o2"], ["roll", P(N["p1"], role="p1"), 1, 1]]])
    S["two-keys-one-array"] = (("p1", "p2", "o1", "o2"), lambda N: [[N["o1"], ["bin", "sub", P(N["p1"], role="p1"), P(N["p2"], role="p2")]], [N["o2"], ["bin", "sub", P(N["p1"], role="p1"), P(N["p2"], role="p2")]]])
    S["size-param"] = (("p1", "sp", "o1"), lambda N: [[N["o1"], ["bin", "add", ["bin", "mul", ["ph", N["p1"], [N["sp"], 3], "float64", "role:p1"], ["py", 2.0]], ["sp", N["sp"]]]]])
    S["named-stored"] = (("p1", "p2", "o1", "t1"), lambda N: [[N["o1"], ["bin", "add", ["tag", ["named", N["t1"]], ["tag", ["stored"], ["bin", "add", P(N["p1"], role="p1"), P(N["p2"], role="p2")]]],
                                                                           ["roll", ["tag", ["named", N["t1"]], ["tag", ["stored"], ["bin", "add", P(N["p1"], role="p1"), P(N["p2"], role="p2")]]], 1, 0]]]])
    S["prefix-stored-twice"] = (("p1", "p2", "o1", "pf"), lambda N: [[N["o1"], ["bin", "add", ["tag", ["prefix", N["pf"]], ["tag", ["stored"], ["bin", "mul", P(N["p1"], role="p1"), P(N["p2"], role="p2")]]],
                                                                                  ["tag", ["prefix", N["pf"]], ["tag", ["stored"], ["bin", "sub", P(N["p1"], role="p1"), P(N["p2"], role="p2")]]]]]])
    S["scalar-reductions"] = (("p1", "p2", "o1", "o2"), lambda N: [[N["o1"], ["bin", "add", ["red", "amax", P(N["p1"], role="p1"), None], ["red", "sum", P(N["p2"], role="p2"), None]]],
                                                                   [N["o2"], ["red", "sum", ["bin", "mul", P(N["p1"], role="p1"), P(N["p2"], role="p2")], 0]]])
    S["einsum"] = (("p1", "p2", "o1"), lambda N: [[N["o1"], ["einsum", "ij,j->i", P(N["p1"], role="p1"), ["ph", N["p2"], [3], "float64", "role:p2"]]]])
    return S


def namings(positions, tier, seed):
    base = {p: DEFAULTS[p] for p in positions}
    yield dict(base)
    alpha = {}
    for p in positions:
        cand = list(STATIC)
        for q in positions:
            if q != p:
                cand += derived(DEFAULTS[q])
        seen, out = set(), []
        for c in cand:
            if c not in seen and c != DEFAULTS[p]:
                seen.add(c)
                out.append(c)
        alpha[p] = out
    # single deviations
    for p in positions:
        for nm in alpha[p]:
            d = dict(base)
            d[p] = nm
            yield d
    # pairs
    pairs = []
    for p, q in itertools.combinations(positions, 2):
        for n1 in alpha[p]:
            for n2 in alpha[q]:
                related = (n1 == n2 or n1 in derived(n2) or n2 in derived(n1))
                pairs.append((related, p, q, n1, n2))
    for related, p, q, n1, n2 in pairs:
        if tier == "thorough" or related:
            d = dict(base)
            d[p], d[q] = n1, n2
            yield d
    if tier == "quick":
        rest = [x for x in pairs if not x[0]]
        for related, p, q, n1, n2 in runner.slice_by_seed([list(x) for x in rest], seed, 60):
            d = dict(base)
            d[p], d[q] = n1, n2
            yield d


def bounds(tier):
    return {"skeletons": len(skeletons()), "static_alphabet": len(STATIC), "pairs": "all" if tier == "thorough" else "related + 1/60 slice"}


def enumerate_cases(tier, seed):
    cases = []
    for sk, (positions, _b) in skeletons().items():
        seen = set()
        for nm in namings(positions, tier, seed):
            k = tuple(sorted(nm.items()))
            if k in seen:
                continue
            if "o1" in nm and "o2" in nm and nm["o1"] == nm["o2"]:
                continue   # one dictionary cannot hold two entries under one key
            seen.add(k)
            cases.append({"skeleton": sk, "names": nm})
    return cases


def classify(names, positions):
    """'clean' if all user names are pairwise distinct and none matches a reserved pattern"""
    vals = [names[p] for p in positions]
    probs = []
    if len(set(vals)) < len(vals):
        probs.append("coinciding-user-names")
    if any(RESERVED.match(v) for v in vals):
        probs.append("reserved-pattern")
    return probs


def run_case(case):  # noqa: C901
    import pytato as pt
    import loopy as lp
    from vf import cexec
    sk = case["skeleton"]
    names = case["names"]
    positions, build = skeletons()[sk]
    outs = build(names)
    probs = classify(names, positions)
    viol = []
    where = f"skeleton {sk} names {names}"

    def refused(stage, e):
        return {"key": [sk, names], "nontrivial": False, "outcome": f"refused@{stage}:{type(e).__name__}" if probs else "violation",
                "violations": [] if probs else [{"sig": {**progcheck.exc_sig(stage, e), "skeleton": sk},
                                                 "msg": f"{where}: all user names distinct and non-reserved, but {stage} raised "
                                                        + progcheck.exc_msg(stage, e)}],
                "sample": {"skeleton": sk, "names": names, "refused": f"{stage}: {type(e).__name__}: {str(e)[:120]}"}}
    # two distinct inputs with one name must give NameClashError
    in_names = [names[p] for p in positions if p in ("p1", "p2", "sp")]
    must_clash = len(set(in_names)) < len(in_names)
    try:
        b, arrays = progcheck.build_outputs(outs)
    except Exception as e:  # noqa: BLE001
        return refused("construct", e)
    try:
        bp = pt.generate_loopy(pt.make_dict_of_named_arrays(arrays) if len(arrays) > 1 or True else arrays,
                               target=cexec.VerifCTarget())
    except Exception as e:  # noqa: BLE001
        if must_clash and type(e).__name__ != "NameClashError":
            viol.append({"sig": {"kind": "wrong-diagnostic-for-same-named-inputs", "error": type(e).__name__},
                         "msg": f"{where}: two distinct inputs share a name; expected NameClashError, got {type(e).__name__}: {e}"})
            return {"key": [sk, names], "nontrivial": False, "outcome": "violation", "violations": viol}
        return refused("generate_loopy", e)
    if must_clash:
        viol.append({"sig": {"kind": "same-named-inputs-accepted"},
                     "msg": f"{where}: two distinct inputs named alike were accepted (no NameClashError)"})
    k = bp.kernel
    argnames = [a.name for a in k.args]
    temps = set(k.temporary_variables)
    inames = set(k.all_inames())
    substs = set(k.substitutions)
    # (1) inputs by exact name
    for p in positions:
        if p in ("p1", "p2") and names[p] not in k.arg_dict:
            viol.append({"sig": {"kind": "input-not-an-argument", "pos": p}, "msg": f"{where}: placeholder {names[p]!r} is not a kernel argument ({argnames})"})
        if p == "sp" and names[p] not in k.arg_dict:
            viol.append({"sig": {"kind": "size-param-not-an-argument"}, "msg": f"{where}: size parameter {names[p]!r} is not a kernel argument ({argnames})"})
        if p in ("o1", "o2"):
            a = k.arg_dict.get(names[p])
            if a is None or not getattr(a, "is_output", False):
                viol.append({"sig": {"kind": "output-not-an-output-argument", "pos": p}, "msg": f"{where}: output key {names[p]!r} is not an output argument ({argnames})"})
    # (3) pairwise distinct name spaces
    if len(set(argnames)) != len(argnames):
        viol.append({"sig": {"kind": "duplicate-argument-names"}, "msg": f"{where}: {argnames}"})
    for n1, s1, n2, s2 in (("arguments", set(argnames), "temporaries", temps), ("arguments", set(argnames), "inames", inames),
                           ("temporaries", temps, "inames", inames), ("substitutions", substs, "arguments", set(argnames)),
                           ("substitutions", substs, "temporaries", temps), ("substitutions", substs, "inames", inames)):
        if s1 & s2:
            viol.append({"sig": {"kind": "name-spaces-overlap", "what": f"{n1}/{n2}"}, "msg": f"{where}: {n1} and {n2} share {sorted(s1 & s2)}"})
    # generated names stay inside _pt_ or are derived from a user name by the generator; user names untouched
    user = {names[p] for p in positions if p in ("p1", "p2", "sp", "o1", "o2")}
    # (5) Named tag
    if "t1" in positions and names["t1"] not in temps and names["t1"] not in k.arg_dict:
        viol.append({"sig": {"kind": "named-tag-not-honoured"}, "msg": f"{where}: no temporary named {names['t1']!r} (temporaries {sorted(temps)})"})
    # (6) bound arguments are the wrapped objects
    data_ids = {id(v): v for v in b.data.values()}
    alias_ids = set()
    for (t, node) in b.nodes:
        if isinstance(node, pt.DataWrapper):
            alias_ids.add(id(node.data))
    for nm, v in bp.bound_arguments.items():
        if isinstance(v, np.ndarray) and id(v) not in alias_ids:
            viol.append({"sig": {"kind": "bound-argument-not-the-wrapped-object"}, "msg": f"{where}: bound {nm}"})
        if nm in user:
            viol.append({"sig": {"kind": "bound-data-under-user-name"}, "msg": f"{where}: wrapped data bound under user name {nm!r}"})
    snap = {nm: v.copy() for nm, v in bp.bound_arguments.items() if isinstance(v, np.ndarray)}
    # (7) execute
    sizes = {names["sp"]: 4} if "sp" in positions else None
    try:
        inputs, ref, ev = progcheck.reference(outs, "ramp", sizes)
    except Exception as e:  # noqa: BLE001
        return {"key": [sk, names], "nontrivial": False, "outcome": "numpy-reference-fails:" + type(e).__name__,
                "violations": viol}
    kw = dict(inputs)
    if sizes:
        kw.update(sizes)
    try:
        got = bp(**kw)
    except Exception as e:  # noqa: BLE001
        if probs:
            return {"key": [sk, names], "nontrivial": False, "outcome": f"refused@execute:{type(e).__name__}", "violations": viol}
        viol.append({"sig": {**progcheck.exc_sig("execute", e), "skeleton": sk}, "msg": f"{where}: " + progcheck.exc_msg("execute", e)})
        return {"key": [sk, names], "nontrivial": False, "outcome": "violation", "violations": viol}
    for nm, v in snap.items():
        if not np.array_equal(v, bp.bound_arguments[nm]):
            viol.append({"sig": {"kind": "bound-data-modified"}, "msg": f"{where}: {nm}"})
    onames = [n for n, _ in outs]
    if len(set(onames)) == len(onames):
        for n, t in outs:
            if n not in got:
                viol.append({"sig": {"kind": "output-missing"}, "msg": f"{where}: no output {n!r} in {sorted(got)}"})
                continue
            if n in inputs and T.tkey(t) != T.tkey(["ph", n, list(inputs[n].shape), str(inputs[n].dtype)]):
                # an output that shares its name with a *different* input: in-place hazards are the user's
                continue
            bad = values.compare(got[n], ref[n], scale=ev.scale, nred=ev.nred, check_dtype=False)
            if bad:
                viol.append({"sig": {"kind": "wrong-value-under-naming", "skeleton": sk, "problems": probs},
                             "msg": f"{where}: output {n}: {bad}\n" + bp.compiled().code[-1500:]})
    oc = "ok" if not probs else "ok-kept-distinct"
    return {"key": [sk, names], "nontrivial": True, "outcome": oc if not viol else "violation", "violations": viol[:5],
            "sample": {"skeleton": sk, "names": names, "arguments": argnames, "temporaries": sorted(temps)[:6],
                       "inames": sorted(inames)[:6]}}


def vacuity(summary):
    oc = summary["outcomes"]
    if oc.get("ok", 0) < 500 or sum(v for k, v in oc.items() if k.startswith("refused")) < 20:
        return f"too few decided namings: {dict(oc)}"
    return None
