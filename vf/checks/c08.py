"""C08 — partitioned distributed execution terminates and is faithful in all schedules."""
from __future__ import annotations

import collections
import warnings

import numpy as np

from vf import distrun, distspace, progcheck, runner, values

warnings.filterwarnings("ignore")

PROPERTY = "C08"
LEVEL = "model_checking"
TECHNIQUE = ("explicit-state model checking of the implementation: for every multi-rank program of a bounded program space "
             "(all communication skeletons with R<=2,M<=3 / R=3,M<=2 (thorough: R<=3,M<=4), rings, stars, chains, "
             "multi-sends, stored intermediates at every position) the real find_distributed_partition / "
             "number_distributed_tags / verify_distributed_partition run on every rank against a replaying simulated "
             "MPI, then the real execute_distributed_partition is explored breadth-first over ALL schedules: states = "
             "per-rank histories of Waitsome answers, transitions = every non-empty subset of deliverable messages a "
             "blocked rank's Waitsome may report; states merged on the history key")
RULE = ("one case = one program; states / transitions are those of the schedule graph; every terminal state's outputs on every "
        "rank must equal NumPy's evaluation of the unpartitioned global data-flow graph; a state without successors in which "
        "some rank has not returned is a deadlock; an exception in the executor (KeyError on a released or not yet produced "
        "name, refcount assertion) or a Waitsome busy loop is a violation; traces_validated = replayed executions")
ASSUMPTIONS = [
    "simulated MPI (vf/fakempi): receives complete only after the matching send was issued, Waitsome may report any "
    "non-empty subset of completed requests, sends are synchronous-safe (every send must meet a posted receive)",
    "a rank's local state is a deterministic function of the Waitsome answers it received (checked by double replay)",
    "part programs are evaluated by the reference evaluator (vf/dageval.py); quick tier: valuation 'ramp'",
    "bounds: ranks <= 3 (thorough: 4 for structured families), messages <= 3 (thorough 4..8 for structured families)",
]
DETERMINISM_CHECK = False   # (the engine has its own double-replay check)


def bounds(tier):
    return {"ranks": 3, "messages": 3 if tier == "quick" else 4}


def enumerate_cases(tier, seed):
    progs = distspace.programs(tier, seed)
    cases = [{"fam": f, "prog": p} for f, p in progs]
    # parts compiled from the code pytato generates for them (instead of the reference evaluator): all structured
    # programs and a seed-chosen slice of the skeleton space
    skel = runner.slice_by_seed([c for c in cases if c["fam"].startswith("R")], seed, 40 if tier == "quick" else 8)
    chosen = {runner.stable_hash(c) for c in skel}
    for c in cases:
        if not c["fam"].startswith("R") or runner.stable_hash(c) in chosen:
            c["cparts"] = True
    return cases


def setup_worker():
    distrun.install_fake_mpi()


def run_case(case):  # noqa: C901
    prog = case["prog"]
    R = prog["R"]
    viol = []
    counters = collections.Counter()
    where = f"program {case['fam']} ops={[(o['src'], o['dst'], o['deps'], o['use_input'], o.get('forward')) for o in prog['ops']]}"
    try:
        res = distrun.partition_all(prog, verify=False)   # (acceptance by the verifier is C09's invariant)
    except Exception as e:  # noqa: BLE001
        return {"key": prog, "nontrivial": False, "outcome": "partition-engine-exception",
                "violations": [{"sig": progcheck.exc_sig("partition-phase", e), "msg": where + ": " + progcheck.exc_msg("partition phase", e)}]}
    bad = {r: s for r, s in res["status"].items() if s[0] != "ok"}
    if bad:
        r0 = sorted(bad)[0]
        st = bad[r0]
        if st[0] == "exc":
            sig = {**progcheck.exc_sig("partition", st[1])}
            msg = progcheck.exc_msg("partition", st[1])
        else:
            sig = {"kind": "partition-stuck", "in": st[1]}
            msg = f"rank {r0} stuck in {st[1]}"
        return {"key": prog, "nontrivial": False, "outcome": "partition-rejected-valid-program",
                "violations": [{"sig": sig, "msg": f"{where}: a matched, acyclic program was not partitioned: {msg}\nranks: "
                                f"{ {r: (s[0], str(s[1])[:150]) for r, s in res['status'].items()} }\nterms: {prog['ranks']}"}]}
    parts = [res["status"][r][1]["partition"] for r in range(R)]
    nstates = ntrans = ntraces = 0
    fwd = any(o.get("forward") and not o["use_input"] for o in prog["ops"])
    modes = [("ref", None)]
    if case.get("cparts"):
        try:
            modes.append(("c", [distrun.make_part_programs(parts[r], "c") for r in range(R)]))
            counters["programs_with_compiled_parts"] += 1
        except Exception as e:  # noqa: BLE001
            sig = {"kind": "part-code-generation-fails", "error": type(e).__name__, "where": progcheck.exc_site(e)}
            if fwd:
                sig["forwarded-receive"] = True
            viol.append({"sig": sig, "msg": f"{where}: generate_code_for_partition: " + progcheck.exc_msg("part codegen", e)[:1200]})
    for mode, prgs in modes:
        val = "ramp"
        inputs = [distrun.rank_inputs(prog, r, val) for r in range(R)]
        try:
            ref = distrun.global_reference(prog, val)
        except Exception as e:  # noqa: BLE001
            return {"key": prog, "nontrivial": False, "outcome": "reference-fails",
                    "violations": [{"sig": {"kind": "harness-reference-fails", "error": type(e).__name__}, "msg": f"{where}: {e}"}]}
        ex = distrun.explore_schedules(R, parts, inputs, prgs_per_rank=prgs)
        nstates += ex["states"]
        ntrans += ex["transitions"]
        ntraces += ex["transitions"] + 1
        if ex["capped"]:
            counters["state_cap_hit"] += 1
        for e in ex["errors"]:
            if e["kind"] == "harness-nondeterminism":
                viol.append({"sig": {"kind": "harness-nondeterminism"}, "msg": where})
                continue
            exc = e["exc"]
            viol.append({"sig": {"kind": "executor-" + e["kind"], "error": type(exc).__name__, "where": progcheck.exc_site(exc)},
                         "msg": f"{where}: rank {e['rank']} after Waitsome history {e['state']}: {type(exc).__name__}: {exc}\n"
                                + progcheck.exc_msg("execute", exc)[-900:]})
        for d in ex["deadlocks"]:
            viol.append({"sig": {"kind": "deadlock"}, "msg": f"{where}: schedule {d['state']}: {d['why']}\nterms: {prog['ranks']}"})
        for t in ex["terminals"]:
            for r in range(R):
                out = t["outputs"][r]
                if set(out) != set(ref[r]):
                    viol.append({"sig": {"kind": "output-names"}, "msg": f"{where}: rank {r} returned {sorted(out)} expected {sorted(ref[r])}"})
                    continue
                for n in ref[r]:
                    bad_ = values.compare(np.asarray(out[n]), ref[r][n], scale=float(np.abs(ref[r][n]).max()) if ref[r][n].size else 1.0, nred=8)
                    if bad_:
                        viol.append({"sig": {"kind": "wrong-output"},
                                     "msg": f"{where}: rank {r} output {n} in schedule {distrun.describe(t['state'])}: {bad_}\nterms: {prog['ranks']}"})
        counters["terminal_states"] += len(ex["terminals"])
        if len(viol) > 6:
            break
    seen, out = set(), []
    for v in viol:
        k = repr(sorted(v["sig"].items()))
        if k not in seen:
            seen.add(k)
            out.append(v)
    return {"key": prog, "nontrivial": nstates > 1 or R == 1, "outcome": "ok" if not out else "violation", "violations": out[:6],
            "states": nstates, "transitions": ntrans, "traces": ntraces, "counters": dict(counters),
            "sample": {"family": case["fam"], "ranks": R, "ops": [(o["src"], o["dst"], o["tag"]) for o in prog["ops"]],
                       "schedule_states": nstates, "transitions": ntrans}}


def vacuity(summary):
    if summary["states"] < 5 * summary["evaluations"] * 0.5 or summary["counters"].get("terminal_states", 0) < summary["evaluations"]:
        return f"schedule graphs collapsed: {summary['states']} states for {summary['evaluations']} programs"
    return None
