"""C18 — persistent hash keys identify a computation faithfully across processes."""
from __future__ import annotations

import os
import pickle
import tempfile
import warnings

import numpy as np

from vf import procrun, progcheck, reflect

warnings.filterwarnings("ignore")

PROPERTY = "C18"
LEVEL = "exploration"
TECHNIQUE = ("bounded exhaustive enumeration: every node kind x every dataclass field x every mutation of the type-directed "
             "alphabet (the C04 pool) plus wrapped-data mutations (one element, same bytes other dtype / other shape, "
             "non-contiguous view) and representative programs; persistent keys computed by PytatoKeyBuilder in the "
             "parent, before and after pickling, and in child interpreters with PYTHONHASHSEED in {0,1,2,random} that "
             "rebuild the same pool, compared pairwise")
RULE = ("cases: one per base node (key(rebuilt) == key(node); key(single-field mutant) != key(node) unless the field is "
        "non_equality_tags / only mapping insertion order changed; key after pickle round trip unchanged), one for "
        "wrapped data, one per child hash seed (key of every pool object computed in the child on its own rebuilt pool "
        "and on the unpickled parent objects == the parent's key); distinct = (object, comparison); non-trivial = keys compared")
ASSUMPTIONS = [
    "creation-traceback tagging at its default (off)",
    "child interpreters rebuild the pool from the same deterministic builders (vf/nodepool.py)",
    "loopy kernels inside LoopyCall nodes are keyed by loopy's own key builder (third-party)",
]
SEEDS = ["0", "1", "2", "random"]
SEEDS_THOROUGH = ["0", "1", "2", "3", "4", "5", "6", "7", "random"]


def bounds(tier):
    return {"hash_seeds": SEEDS if tier == "quick" else SEEDS_THOROUGH}


def enumerate_cases(tier, seed):
    from vf import nodepool
    g, base = nodepool.base_nodes()
    cases = [{"what": "node", "label": label} for label, _ in base]
    cases.append({"what": "data"})
    for s in (SEEDS if tier == "quick" else SEEDS_THOROUGH):
        cases.append({"what": "child", "seed": s})
    return cases


def key(o):
    from pytato.analysis import PytatoKeyBuilder
    return PytatoKeyBuilder()(o)


def run_node(case):
    import pytato as pt
    from vf import nodepool
    g, base = nodepool.base_nodes()
    node = dict(base)[case["label"]]
    kind = type(node).__name__
    viol, keys = [], []
    n = 0

    def V(k, msg, **sig):
        viol.append({"sig": {"kind": k, "node": kind, **sig}, "msg": f"{case['label']}: {msg}"})
    try:
        k0 = key(node)
    except Exception as e:  # noqa: BLE001
        V("exception", progcheck.exc_msg("key", e), where=progcheck.exc_site(e))
        return {"evaluations": 1, "keys": [], "nontrivial": False, "outcome": "violation", "violations": viol}
    if key(node) != k0:
        V("key-not-stable-in-process", "two computations of the key differ")
    rb = nodepool.rebuilt(node)
    if key(rb) != k0:
        V("rebuilt-key-differs", "structurally equal rebuilt copy gets another key")
    try:
        hash(node)
        back = pickle.loads(pickle.dumps(node))
        if key(back) != k0:
            V("key-changes-after-pickling", "key of the unpickled node differs")
    except Exception as e:  # noqa: BLE001
        V("exception", progcheck.exc_msg("pickle/key", e), where=progcheck.exc_site(e))
    n += 3
    # histories: copies derived from an *already keyed* node through the public API (a key cached on the object must
    # not travel into a copy that differs)
    if isinstance(node, pt.Array):
        from vf import tagdefs
        derived = []
        try:
            derived.append(("tagged", node.tagged(tagdefs.UserArrayTag("after-keying")), False))
            t1 = node.tagged(tagdefs.UserArrayTag("t1"))
            key(t1)
            derived.append(("tagged-then-without_tags", t1.without_tags(tagdefs.UserArrayTag("t1")), True))
            derived.append(("tagged-twice", t1.tagged(tagdefs.UserArrayTag("t2")), False))
            if node.ndim:
                derived.append(("with_tagged_axis", node.with_tagged_axis(0, tagdefs.UserAxisTag("after-keying")), False))
            derived.append(("copy()", node.copy(), True))
        except (ValueError, TypeError, NotImplementedError):
            pass       # (kinds that cannot be tagged: NamedCallResult)
        for how, dn, same in derived:
            n += 1
            keys.append([case["label"], "history", how])
            try:
                kd, kfresh = key(dn), key(nodepool.rebuilt(dn))
            except Exception as e:  # noqa: BLE001
                V("exception", f"history {how}: " + progcheck.exc_msg("key", e), where=progcheck.exc_site(e))
                continue
            if kd != kfresh:
                V("key-of-derived-copy-differs-from-fresh-build", f"key(node) computed first; {how}: the key of the derived object differs "
                  "from the key of a structurally equal freshly built object", how=how)
            if same != (kd == k0):
                V("stale-or-unstable-key-after-derivation", f"{how}: key {'differs from' if same else 'equals'} the original node's", how=how)
    ms, _cannot = nodepool.mutants(node)
    for f, d, m, eq_expected in ms:
        n += 1
        keys.append([case["label"], f, d])
        try:
            km = key(m)
        except Exception as e:  # noqa: BLE001
            V("exception", f"field {f} [{d}]: " + progcheck.exc_msg("key of mutant", e), where=progcheck.exc_site(e), field=f.split("[")[0])
            continue
        if d == "other-buffer":
            eq_expected = True    # another buffer with the same contents, shape and dtype: the same computation
        if f == "non_equality_tags":
            continue   # the property leaves creation-traceback (non-equality) tags out: they are off by default
        if eq_expected and km != k0:
            V("irrelevant-change-changes-key", f"field {f} [{d}]", field=f.split("[")[0])
        if not eq_expected and km == k0:
            V("key-ignores-field", f"field {f} changed ({d}) but the persistent key is the same", field=f.split("[")[0])
    del pt
    seen, out = set(), []
    for v in viol:
        kk = repr(sorted(v["sig"].items()))
        if kk not in seen:
            seen.add(kk)
            out.append(v)
    return {"evaluations": n, "keys": keys, "nontrivial": True, "outcome": "ok" if not out else "violation",
            "violations": out[:12], "sample": {"node": case["label"], "key": k0, "mutants": len(ms)}}


def run_data(case):
    import pytato as pt
    viol = []
    n = 0
    base = np.arange(12, dtype=np.int64).reshape(3, 4)
    variants = {
        "one-element-changed": (lambda: (lambda a: (a.__setitem__((1, 1), 99), a)[1])(base.copy()), False),
        "same-bytes-other-dtype": (lambda: base.view(np.float64), False),
        "same-bytes-other-shape": (lambda: base.reshape(4, 3), False),
        "same-bytes-other-shape-1d": (lambda: base.reshape(12), False),
        "zeros-int-vs-float": (None, None),
        "equal-copy": (lambda: base.copy(), True),
        "equal-noncontiguous-view": (lambda: np.asfortranarray(base), True),
        "equal-strided-view": (lambda: np.concatenate([base, base], axis=1)[:, :4], True),
        "transposed-square": (None, None),
    }
    k0 = key(pt.make_data_wrapper(base) + 1)
    for name, (mk, eq) in variants.items():
        if mk is None:
            continue
        n += 1
        k = key(pt.make_data_wrapper(mk()) + 1)
        if eq and k != k0:
            viol.append({"sig": {"kind": "equal-data-different-key", "variant": name}, "msg": f"wrapped data {name}: same contents, shape and dtype but another key"})
        if not eq and k == k0:
            viol.append({"sig": {"kind": "data-collision", "variant": name}, "msg": f"wrapped data {name}: different array, same persistent key"})
    z1 = key(pt.make_data_wrapper(np.zeros(4, np.int64)))
    z2 = key(pt.make_data_wrapper(np.zeros(4, np.float64)))
    n += 1
    if z1 == z2:
        viol.append({"sig": {"kind": "data-collision", "variant": "zeros-int64-vs-float64"}, "msg": "zeros(4, int64) and zeros(4, float64) get one key"})
    # large data (several MiB): a change anywhere must reach the key, not only within a prefix or a sample
    big = np.arange(3 * 2 ** 18, dtype=np.float64)
    kbig = key(pt.make_data_wrapper(big) + 1)
    for where_ in (0, big.size // 2, 2 ** 17 + 1, big.size - 1):
        ch = big.copy()
        ch[where_] += 1.0
        n += 1
        if key(pt.make_data_wrapper(ch) + 1) == kbig:
            viol.append({"sig": {"kind": "data-collision", "variant": "large-array-one-element-changed"},
                         "msg": f"float64 array of {big.size} elements: changing element {where_} does not change the key"})
    bigi = np.arange(2 ** 20 + 7, dtype=np.int32)
    chi = bigi.copy()
    chi[-1] += 1
    n += 1
    if key(pt.make_data_wrapper(chi)) == key(pt.make_data_wrapper(bigi)):
        viol.append({"sig": {"kind": "data-collision", "variant": "large-array-one-element-changed"},
                     "msg": f"int32 array of {bigi.size} elements: changing the last element does not change the key"})
    # the same bytes under a dtype of the other byte order denote other values
    for dts in (">i4", ">f8", ">c16", ">u2"):
        be = np.arange(1, 13).astype(dts)
        native_view = be.view(be.dtype.newbyteorder())
        n += 1
        if key(pt.make_data_wrapper(be)) == key(pt.make_data_wrapper(native_view)):
            viol.append({"sig": {"kind": "data-collision", "variant": "same-bytes-other-byte-order"},
                         "msg": f"an array of dtype {dts} and the same bytes viewed in the native byte order (other values) get one key"})
    sq = np.arange(9.0).reshape(3, 3)
    n += 1
    if key(pt.make_data_wrapper(sq)) == key(pt.make_data_wrapper(sq.T)):
        viol.append({"sig": {"kind": "data-collision", "variant": "transposed-view"}, "msg": "a square array and its transposed view get one key"})
    # names, shapes, dtypes of placeholders; tags; axes
    x = pt.make_placeholder("x", (3, 4), np.float64)
    pairs = {
        "placeholder-name": (x, pt.make_placeholder("y", (3, 4), np.float64)),
        "placeholder-shape": (x, pt.make_placeholder("x", (4, 3), np.float64)),
        "placeholder-dtype": (x, pt.make_placeholder("x", (3, 4), np.float32)),
        "array-tag": (x + 1, (x + 1).tagged(pt.tags.ImplStored())),
        "named-tag": ((x + 1).tagged(pt.tags.Named("a")), (x + 1).tagged(pt.tags.Named("b"))),
        "axis-tag": (x + 1, (x + 1).with_tagged_axis(0, pt.tags.ImplStored())),
        "reduction-op": (pt.sum(x), pt.prod(x)),
        "reduction-op-maxmin": (pt.amax(x), pt.amin(x)),
        "reduction-axis": (pt.sum(x, axis=0), pt.sum(x, axis=1)),
        "reshape-order": (x.reshape(4, 3, order="C"), x.reshape(4, 3, order="F")),
        "roll-shift": (pt.roll(x, 1, 0), pt.roll(x, 2, 0)),
        "scalar-constant": (x + 1.0, x + 2.0),
        "numpy-scalar-same-bytes-other-dtype-32": (x + np.float32(1), x + np.int32(1065353216)),
        "numpy-scalar-same-bytes-other-dtype-64": (x + np.float64(1), x + np.int64(4607182418800017408)),
        "numpy-scalar-vs-python-scalar": (x * np.float32(2), x * 2.0),
        "python-int-vs-float-constant": (pt.make_placeholder("xi", (3,), np.int32) + 1, pt.make_placeholder("xi", (3,), np.int32) + 1.0),
        "full-fill-value-dtype": (pt.full((3,), np.float32(1)), pt.full((3,), np.int32(1065353216), dtype=np.float32)),
        "send-tag": (pt.staple_distributed_send(x, 1, 5, x), pt.staple_distributed_send(x, 1, 6, x)),
        "output-name": (pt.make_dict_of_named_arrays({"a": x + 1}), pt.make_dict_of_named_arrays({"b": x + 1})),
        "einsum-spec": (pt.einsum("ij,ij->ij", x, x), pt.einsum("ij,ij->i", x, x)),
    }
    # structurally equal graphs (==) written with numpy integers / floats where the other uses Python numbers
    equal_pairs = {
        "roll-numpy-int64-arguments": (pt.roll(x, np.int64(1), np.int64(0)), pt.roll(x, 1, 0)),
        "roll-numpy-int32-shift": (pt.roll(x, np.int32(1), 0), pt.roll(x, 1, 0)),
        "reshape-numpy-int-shape": (pt.reshape(x, (np.int64(4), np.int64(3))), pt.reshape(x, (4, 3))),
        "placeholder-numpy-int-shape": (pt.make_placeholder("y", (np.int64(3),), np.float64), pt.make_placeholder("y", (3,), np.float64)),
        "transpose-numpy-int-axes": (pt.transpose(x, (np.int64(1), np.int64(0))), pt.transpose(x, (1, 0))),
        "numpy-float64-scalar-operand": (x + np.float64(1.5), x + 1.5),
        "index-numpy-int": (x[np.int64(1)], x[1]),
    }
    for name, (a, b) in equal_pairs.items():
        n += 1
        try:
            if a == b and key(a) != key(b):
                viol.append({"sig": {"kind": "equal-graphs-different-keys", "pair": name},
                             "msg": f"pair {name}: the two graphs compare equal but have different persistent keys"})
        except Exception as e:  # noqa: BLE001
            viol.append({"sig": {"kind": "exception", "pair": name, "error": type(e).__name__}, "msg": f"pair {name}: {e}"})
    for name, (a, b) in pairs.items():
        n += 1
        if key(a) == key(b):
            viol.append({"sig": {"kind": "key-collision", "pair": name}, "msg": f"pair {name}: different computations, same persistent key"})
    return {"evaluations": n, "keys": [["data", i] for i in range(n)], "nontrivial": True,
            "outcome": "ok" if not viol else "violation", "violations": viol, "sample": {"pairs": n, "base_key": k0}}


def run_child(case):
    from vf import poolchild
    items = poolchild.full_pool()
    parent_keys = []
    for _, o in items:
        try:
            parent_keys.append(key(o))
        except Exception as e:  # noqa: BLE001
            parent_keys.append("ERR:" + type(e).__name__)
    d = tempfile.mkdtemp(prefix="ptv-c18-", dir=os.environ.get("VERIF_SCRATCH", "/var/tmp"))
    path = os.path.join(d, "pool.pkl")
    with open(path, "wb") as f:
        pickle.dump({"labels": [l for l, _ in items], "objects": [o for _, o in items]}, f)
    try:
        res = procrun.run_json(["-m", "vf.poolchild", "compare", path], case["seed"])
    finally:
        import shutil
        shutil.rmtree(d, ignore_errors=True)
    viol = []
    n = 0
    for it, (label, o), pk in zip(res["items"], items, parent_keys):
        n += 1
        kind = type(o).__name__
        if "key_error" in it:
            viol.append({"sig": {"kind": "exception-in-child", "node": kind}, "msg": f"{label}: {it['key_error']}"})
            continue
        has_dw = any(type(x).__name__ == "DataWrapper" for x in reflect.walk(o))
        if it["key_own"] != pk:
            viol.append({"sig": {"kind": "key-differs-between-processes", "node": kind, "how": "rebuilt"},
                         "msg": f"{label}: key of the expression rebuilt in a process with hash seed {case['seed']} is {it['key_own'][:12]}.., here {pk[:12]}.."})
        if it["key_loaded"] != pk:
            viol.append({"sig": {"kind": "key-differs-between-processes", "node": kind, "how": "unpickled"},
                         "msg": f"{label}: key of the unpickled expression in a process with hash seed {case['seed']} differs"})
        del has_dw
    seen, out = set(), []
    for v in viol:
        kk = repr(sorted(v["sig"].items()))
        if kk not in seen:
            seen.add(kk)
            out.append(v)
    return {"evaluations": n, "keys": [["child", case["seed"], i] for i in range(n)], "nontrivial": True,
            "outcome": "ok" if not out else "violation", "violations": out[:10],
            "sample": {"child_hash_seed": case["seed"], "objects": n, "example_key": parent_keys[0]}}


def run_case(case):
    return {"node": run_node, "data": run_data, "child": run_child}[case["what"]](case)


def vacuity(summary):
    if summary["evaluations"] < 1000:
        return f"too few key comparisons: {summary['evaluations']}"
    return None
