"""C14 — Python (NumPy-like) code generation computes what NumPy computes."""
from __future__ import annotations

import collections
import warnings

import numpy as np

from vf import progcheck, runner, space, values
from vf import terms as T

warnings.filterwarnings("ignore")

PROPERTY = "C14"
LEVEL = "exploration"
TECHNIQUE = ("bounded exhaustive enumeration of C01's program space (static shapes, no sparse matmul / loopy calls): every "
             "operation instance, output-set variants, depth-2 compositions; each run through generate_numpy_like with "
             "real NumPy as the array module and executed on all valuations; outcome classified ok / not-supported / "
             "violation")
RULE = ("cases = L1 instances + variants + L2 slice (quick: slice chosen by VERIF_SEED; thorough: all); admissible "
        "outcomes: (ok) values = NumPy's on every valuation, keyword arguments = the user's input names, wrapped data "
        "pre-bound as the same objects; (not supported) NotImplementedError / UnknownIndexLambdaExpr from generation; "
        "anything else (wrong value, exception at generation or run time, missing / extra argument) is a violation; "
        "distinct = distinct programs; non-trivial = generated code ran and was compared")
ASSUMPTIONS = [
    "real NumPy stands in for the NumPy-like module (nothing is claimed about jax.numpy itself)",
    "values compared modulo the result dtype (the raising step documents that it drops type casts); dtype "
    "disagreements are counted in the evidence",
    "valuation alphabet; C01's fragment exclusions",
]
L2_SLICES_QUICK = 24


def bounds(tier):
    return {"L2_slices": 1 if tier == "thorough" else L2_SLICES_QUICK}


def _static(t):
    for s in T.all_subterms(t):
        if s[0] in ("csrmm", "lpcall", "sp"):
            return False
    return True


def enumerate_cases(tier, seed):
    cases = []
    l1 = [x for x in space.l1("quick" if tier == "quick" else "thorough") if _static(x[1])]
    for f, t, _s, _d in l1:
        cases.append({"fam": f, "outs": [["out", t]]})
    var = []
    for f, t, _s, _d in l1:
        for v in space.program_variants(t)[1:]:
            var.append({"fam": f, "outs": v})
    l2 = [{"fam": f, "outs": [["out", t]]} for f, t in space.l2("quick") if _static(t)]
    sib = [{"fam": f, "outs": o} for f, o in space.sibling_pair_programs()]
    if tier == "quick":
        var = runner.slice_by_seed(var, seed, 6)
        l2 = runner.slice_by_seed(l2, seed, L2_SLICES_QUICK)
        sib = runner.slice_by_seed(sib, seed, 3)
    # the exhaustive node-parameter spaces of C02 (every slice, roll shift, axis, advanced-index
    # placement, einsum specification): the Python target re-synthesises slices / einsum specs
    from vf.checks import c02
    seen = set()
    extra = []
    for g, t in c02.gen_terms("quick"):
        k = T.tkey(t)
        if k not in seen and g not in ("Reshape", "CSRMatmul"):
            seen.add(k)
            extra.append({"fam": "c02:" + g, "outs": [["out", t]]})
    rs = [{"fam": "c02:Reshape", "outs": [["out", t]]} for g, t in c02.gen_terms("quick") if g == "Reshape"]
    extra += rs if tier != "quick" else runner.slice_by_seed(rs, seed, 6)
    return cases + var + l2 + sib + extra


def run_case(case):  # noqa: C901
    import pytato as pt
    from pytato.diagnostic import UnknownIndexLambdaExpr
    from vf import pyexec
    outs = case["outs"]
    viol = []
    counters = collections.Counter()
    for _, t in outs:
        if progcheck.fragment_exclusion(t):
            return {"key": outs, "nontrivial": False, "outcome": "excluded", "violations": []}
    try:
        b, arrays = progcheck.build_outputs(outs)
    except (NotImplementedError, ValueError, TypeError, IndexError) as e:
        return {"key": outs, "nontrivial": False, "outcome": "rejected:" + type(e).__name__, "violations": []}
    except Exception:  # noqa: BLE001
        return {"key": outs, "nontrivial": False, "outcome": "construct-exception", "violations": []}
    try:
        dag = pt.transform.deduplicate(pt.make_dict_of_named_arrays(arrays))
    except Exception:  # noqa: BLE001
        return {"key": outs, "nontrivial": False, "outcome": "dedup-exception", "violations": []}
    try:
        bp = pyexec.generate(dag)
    except (NotImplementedError, UnknownIndexLambdaExpr) as e:
        return {"key": outs, "nontrivial": False, "outcome": "not-supported:" + type(e).__name__,
                "violations": [], "collect": [case["fam"], "unsupported"]}
    except Exception as e:  # noqa: BLE001
        return {"key": outs, "nontrivial": False, "outcome": "generation-exception",
                "violations": [{"sig": progcheck.exc_sig("generate_numpy_like", e),
                                "msg": progcheck.exc_msg("generate_numpy_like", e, outs)}]}
    # arguments: exactly the user's input names; wrapped data pre-bound (same objects)
    # the user's inputs = the placeholders present in the graph handed to the generator
    # (pt.imag(real_array) etc. legitimately do not depend on their argument)
    from vf import reflect
    user_inputs = {n.name for n in reflect.walk(dag) if isinstance(n, (pt.Placeholder, pt.SizeParam))}
    bound = dict(bp.bound_arguments)
    expected = set(bp.expected_arguments)
    # every keyword the function requires must be one of the user's inputs; an input the
    # generated code does not need (zeros_like(x)) may be omitted -- the bound program
    # still accepts it and drops it, which the calls below exercise
    if not (expected - set(bound) <= user_inputs):
        viol.append({"sig": {"kind": "argument-names"},
                     "msg": f"generated function takes {sorted(expected - set(bound))} but the user's inputs are {sorted(user_inputs)}\nprogram: {outs}"})
    data_objs = {id(v) for v in b.data.values()}
    for name, v in bound.items():
        if isinstance(v, np.ndarray) and id(v) not in data_objs:
            viol.append({"sig": {"kind": "bound-data-not-identical"},
                         "msg": f"bound argument {name} is not one of the wrapped data objects\nprogram: {outs}"})
    nrun = 0
    for val in progcheck.valuations_for([t for _, t in outs]):
        try:
            inputs, ref, ev = progcheck.reference(outs, val)
        except Exception:  # noqa: BLE001
            return {"key": outs, "nontrivial": False, "outcome": "numpy-rejects", "violations": []}
        if ev.excluded:
            continue
        snap = {k: v.copy() for k, v in bound.items() if isinstance(v, np.ndarray)}
        try:
            with np.errstate(all="ignore"):
                got = bp(**inputs)
        except Exception as e:  # noqa: BLE001
            viol.append({"sig": {**progcheck.exc_sig("run-generated-python", e)},
                         "msg": progcheck.exc_msg("run generated python", e, outs) + "\n" + bp.program[-1200:]})
            break
        nrun += 1
        for k, v in snap.items():
            if not np.array_equal(v, bound[k], equal_nan=True):
                viol.append({"sig": {"kind": "bound-data-modified"}, "msg": f"bound {k} was written\nprogram: {outs}"})
        if not isinstance(got, dict) or set(got) != {n for n, _ in outs}:
            viol.append({"sig": {"kind": "output-names"},
                         "msg": f"returned {type(got).__name__} {sorted(got) if isinstance(got, dict) else ''} for outputs {[n for n, _ in outs]}"})
            break
        for name, t in outs:
            g = np.asarray(got[name])
            r = ref[name]
            bad = values.compare(g, r, scale=ev.scale, nred=ev.nred, check_dtype=False, min_eps=ev.eps)
            if bad:
                sig = progcheck.blame_wrong_value(t, lambda o: _sub(o))
                viol.append({"sig": sig, "msg": f"output {name} valuation {val}: {bad}\nprogram: {outs}\n{bp.program[-900:]}"})
            elif g.dtype != arrays[name].dtype:
                counters["dtype_differs_from_declared"] += 1
        if viol:
            break
    oc = "ok" if nrun and not viol else ("violation" if viol else "all-valuations-excluded")
    return {"key": outs, "nontrivial": oc == "ok", "outcome": oc, "violations": viol[:4], "counters": dict(counters),
            "collect": [case["fam"], "ok"] if oc == "ok" else None,
            "sample": {"program": outs, "outcome": oc, "source_tail": bp.program[-300:]}}


def _sub(outs):
    r = run_case({"fam": "?", "outs": outs})
    for v in r["violations"]:
        if v["sig"].get("kind") != "wrong-value":
            v["sig"]["kind"] = v["sig"].get("kind", "")
    return r


def vacuity(summary):
    if summary["outcomes"].get("ok", 0) < 0.3 * summary["evaluations"]:
        return f"fewer than 30% of programs ran: {dict(summary['outcomes'])}"
    return None
