"""C12 — outlining a function and inlining its calls are inverse and value-preserving."""
from __future__ import annotations

import collections
import itertools
import warnings

import numpy as np

from vf import progcheck, runner, space, values
from vf import terms as T

warnings.filterwarnings("ignore")

PROPERTY = "C12"
LEVEL = "exploration"
TECHNIQUE = ("bounded exhaustive enumeration of (function body, return convention, call pattern, naming scheme): bodies are "
             "terms of the program space over 1..4 parameters (incl. bodies that ignore a parameter), return conventions "
             "array/tuple/dict, call patterns positional/keyword/mixed with the keywords written in declaration, reversed and rotated order, one definition called twice, calls nested to "
             "depth 3, a call result as argument of another call, caller placeholders named like the generated parameter "
             "placeholders / like the keywords / unrelated; each traced with trace_call, evaluated by the reference "
             "evaluator, inlined, re-evaluated and compiled")
RULE = ("one case = one combination; oracle: trace_call results have the shapes/dtypes/values of applying the function "
        "directly (NumPy on the composed term); after tag_all_calls_to_be_inlined + inline_calls the graph has no call "
        "site and evaluates identically (reference evaluator and generated C); an advertised call pattern that is "
        "rejected is a violation; distinct = distinct combinations; non-trivial = traced, inlined and compared")
ASSUMPTIONS = [
    "vf/dageval.py evaluates Call nodes by evaluating the body with the bindings (reference semantics of a call)",
    "C glue of vf/cexec.py for the inlined graphs; valuation alphabet {ramp, edge}",
    "bodies drawn from a fixed list of ~30 body terms covering every node family; nesting depth <= 3",
]

F8 = "float64"
PA = ["ph", "PA", [2, 3], F8]
PB = ["ph", "PB", [3], F8]
PC = ["ph", "PC", [2, 3], F8]
PD = ["ph", "PD", [3, 2], F8]
PARAMS = [PA, PB, PC, PD]


def bodies():
    """(name, params used in signature, [output terms])"""
    a, b, c, d = PARAMS
    B = []

    def add(name, params, *outs):
        B.append((name, params, list(outs)))
    add("add", [a, b], ["bin", "add", a, b])
    add("scale", [a], ["bin", "mul", a, ["py", 2.0]])
    add("poly", [a], ["bin", "add", ["bin", "mul", a, a], ["bin", "sub", a, ["py", 1.0]]])
    add("sum1", [a], ["red", "sum", ["bin", "mul", a, a], 1])
    add("amax", [a, b], ["bin", "add", ["red", "amax", a, 0], b])
    add("matmul", [a, d], ["matmul", a, d])
    add("einsum", [a, b], ["einsum", "ij,j->i", a, b])
    add("roll", [a], ["roll", a, 1, 1])
    add("index", [a], ["index", a, [["s", None, None, -1], ["s", 1, None, None]]])
    add("reshape", [a], ["reshape", a, [3, 2], "F"])
    add("transpose", [a, d], ["bin", "add", ["T", a], d])
    add("where", [a, c], ["where", ["cmp", "less", a, c], a, ["neg", c]])
    add("concat", [a, c], ["concat", 0, a, ["bin", "mul", c, ["py", 3.0]]])
    add("stack", [a, c], ["stack", 2, a, c])
    add("pad", [b], ["pad", ["fn", "exp", b], 1, 0])
    add("wrapper", [a], ["bin", "add", a, ["dw", "fw", [2, 3], F8]])
    add("advidx", [a], ["index", a, [["a", ["dwv", "fi", "int32", [1, 0, -1]]], ["s", None, None, None]]])
    add("passthrough", [a], a)
    add("ignores-b", [a, b], ["bin", "mul", a, ["py", 3.0]])
    add("ignores-a-of-3", [a, b, c], ["bin", "add", ["bin", "mul", ["py", 2.0], b], ["red", "sum", c, 0]])
    add("three", [a, b, c], ["bin", "add", ["bin", "mul", a, b], c])
    add("four", [a, b, c, d], ["bin", "add", ["matmul", ["bin", "add", a, c], d], ["matmul", ["bin", "mul", a, b], d]])
    add("two-out", [a, b], ["bin", "add", a, b], ["bin", "sub", a, b])
    add("two-out-shared", [a], ["fn", "sin", ["bin", "mul", a, ["py", 2.0]]], ["fn", "cos", ["bin", "mul", a, ["py", 2.0]]])
    add("two-out-mixed", [a, b, c], ["red", "sum", a, 1], ["bin", "mul", c, b])
    add("const", [a], ["bin", "add", ["zeros_like", a], ["py", 5.0]])
    add("same-param-twice", [a], ["bin", "mul", a, a])
    add("cmp-int", [a], ["astype", ["cmp", "greater", a, ["py", 0.0]], "int32"])
    return B


# caller-side argument expressions for a parameter of given shape
def caller_args(param, scheme, slot):
    """placeholder (named per scheme) and an expression over it"""
    shape, dt = param[2], param[3]
    pname = param[1]
    name = {"generated": f"in__pt_{slot}", "kwlike": "in_" + pname.lower(), "keyword": pname.lower(),
            "unrelated": f"u{slot}{''.join(map(str, shape))}"}[scheme]
    ph = ["ph", name, shape, dt, "caller"]
    return ph


NAMINGS = ("unrelated", "generated", "kwlike", "keyword")
PATTERNS = ("pos", "kw", "mixed", "kw-rev", "kw-rot", "mixed-rev")
RETS = ("array", "tuple", "dict")
EXTRAS = ("single", "arg-expr", "twice", "nested2", "nested3", "chain", "same-arg-twice",
          "twice-shared-first-arg", "twice-same-args", "caller-recomputes-body", "nested-kw-inner")


def bounds(tier):
    return {"bodies": len(bodies()), "namings": len(NAMINGS), "patterns": len(PATTERNS), "extras": len(EXTRAS)}


def enumerate_cases(tier, seed):
    cases = []
    for (bname, params, outs) in bodies():
        for ret in RETS:
            if ret == "array" and len(outs) != 1:
                continue
            for pat in PATTERNS:
                if pat == "mixed" and len(params) < 2:
                    continue
                nkw = len(params) - {"pos": len(params), "kw": 0, "mixed": max(1, len(params) // 2)}[pat.split("-")[0]]
                if pat.endswith(("-rev", "-rot")) and (nkw < 2 or (pat.endswith("-rot") and nkw < 3)):
                    continue
                for nm in NAMINGS:
                    for ex in EXTRAS:
                        if ex == "nested-kw-inner" and pat != "pos":
                            continue
                        cases.append({"body": bname, "ret": ret, "pattern": pat, "naming": nm, "extra": ex})
    if tier == "quick":
        core = [c for c in cases if c["extra"] in ("single", "twice", "twice-shared-first-arg", "caller-recomputes-body", "nested-kw-inner")
                and c["naming"] in ("unrelated", "generated")]
        rest = [c for c in cases if c not in core]
        cases = core + runner.slice_by_seed(rest, seed, 3)
    return cases


def make_fn(params, outs, ret, kwnames):
    """Python function building the body from terms; positional params first, then keywords"""
    import pytato as pt

    def f(*args, **kwargs):
        b = T.PtBuilder()
        formal = list(params)
        npos = len(args)
        for p, a in zip(formal[:npos], args):
            b.memo[T.tkey(p)] = a
        for p in formal[npos:]:
            b.memo[T.tkey(p)] = kwargs[p[1].lower()]
        res = [b(o) for o in outs]
        if ret == "array":
            return res[0]
        if ret == "tuple":
            return tuple(res)
        return {f"r{i}": r for i, r in enumerate(res)}
    f.__name__ = "traced"
    del pt
    return f


def call(fn, params, args, pattern):
    import pytato as pt
    n = len(params)
    base = pattern.split("-")[0]
    npos = {"pos": n, "kw": 0, "mixed": max(1, n // 2)}[base]
    items = [(p[1].lower(), a) for p, a in zip(params[npos:], args[npos:])]
    # the order in which the keywords are written at the call site is the caller's choice
    if pattern.endswith("-rev"):
        items.reverse()
    elif pattern.endswith("-rot"):
        items = items[1:] + items[:1]
    return pt.trace_call(fn, *args[:npos], **dict(items))


def as_list(res, ret):
    if ret == "array":
        return [res]
    if ret == "tuple":
        return list(res)
    return [res[k] for k in sorted(res)]


def substitute(outs, params, arg_terms):
    res = []
    for o in outs:
        t = o
        # simultaneous substitution: first rename parameters to unique markers
        for i, p in enumerate(params):
            t = space.replace_leaf(t, T.tkey(p), ["__ARG__", i])
        for i, a in enumerate(arg_terms):
            t = space.replace_leaf(t, T.tkey(["__ARG__", i]), a)
        res.append(t)
    return res


def run_case(case):  # noqa: C901
    import pytato as pt
    from pytato.analysis import get_num_call_sites
    from vf import cexec, dageval
    viol = []
    counters = collections.Counter()
    bmap = {b[0]: b for b in bodies()}
    bname, params, outs = bmap[case["body"]]
    ret, pat, nm, ex = case["ret"], case["pattern"], case["naming"], case["extra"]
    where = f"case {case}"
    fn = make_fn(params, outs, ret, None)
    B = T.PtBuilder()
    arg_terms = [caller_args(p, nm, i) for i, p in enumerate(params)]
    if ex == "arg-expr":
        arg_terms = [["bin", "add", a, ["py", 1.0]] for a in arg_terms]
    if ex == "same-arg-twice":
        # every parameter of one shape receives the very same caller array
        first = {}
        arg_terms = [first.setdefault((tuple(p[2]), p[3]), a) for p, a in zip(params, arg_terms)]
    ref_terms = []     # [(name, term)] NumPy-side composed program
    results = []       # pt arrays

    def do_call(fn_, params_, arg_terms_, outs_):
        args = [B(a) for a in arg_terms_]
        r = call(fn_, params_, args, pat)
        return as_list(r, ret), substitute(outs_, params_, arg_terms_)
    try:
        if ex == "caller-recomputes-body":
            # the caller also computes, on the same arguments, what the body computes: the inlined body and the caller's own
            # graph contain equal sub-expressions
            rs, ts = do_call(fn, params, arg_terms, outs)
            results += rs + [B(t) for t in ts]
            ref_terms += ts + ts
        elif ex in ("single", "arg-expr", "same-arg-twice"):
            rs, ts = do_call(fn, params, arg_terms, outs)
            results += rs
            ref_terms += ts
        elif ex in ("twice", "twice-shared-first-arg", "twice-same-args"):
            rs, ts = do_call(fn, params, arg_terms, outs)
            results += rs
            ref_terms += ts
            # the SAME definition called again: with other arguments / sharing the first argument / with the same arguments
            fdef = rs[0]._container.function
            other = [["bin", "mul", a, ["py", -2.0]] for a in arg_terms]
            if ex == "twice-shared-first-arg":
                other[0] = arg_terms[0]
            elif ex == "twice-same-args":
                other = list(arg_terms)
            bind = {}
            for pname in fdef.parameters:
                # parameter placeholder names: in__pt_<i> (positional) or in_<kw>
                if pname.startswith("in__pt_"):
                    i = int(pname[len("in__pt_"):])
                else:
                    i = [p[1].lower() for p in params].index(pname[len("in_"):])
                bind[pname] = B(other[i])
            r2 = fdef(**bind)
            results += as_list(r2, ret)
            ref_terms += substitute(outs, params, other)
        elif ex == "nested-kw-inner":
            # the outer function is traced with positional arguments, its body calls the traced function by keyword only:
            # the nested callee's parameter names (in_<kw>) share nothing with the enclosing function's (in__pt_<i>)
            def outer_kw(*a):
                r = pt.trace_call(fn, **{p_[1].lower(): x_ + 1.0 for p_, x_ in zip(params, a)})
                lst = [2.0 * x_ for x_ in as_list(r, ret)]
                return lst[0] if ret == "array" else (tuple(lst) if ret == "tuple" else {f"r{i}": x_ for i, x_ in enumerate(lst)})
            args = [B(a) for a in arg_terms]
            r = pt.trace_call(outer_kw, *args)
            results += as_list(r, ret)
            inner_at = [["bin", "add", a, ["py", 1.0]] for a in arg_terms]
            ref_terms += [["bin", "mul", ["py", 2.0], t] for t in substitute(outs, params, inner_at)]
        elif ex in ("nested2", "nested3"):
            # outer function applies the traced body to (param + 1) of each of its own parameters
            def outer(*a, **k):
                inner_args = [x + 1.0 for x in a]
                inner_kw = {kk: v + 1.0 for kk, v in k.items()}
                r = pt.trace_call(fn, *inner_args, **inner_kw)
                lst = as_list(r, ret)
                lst = [2.0 * x for x in lst]
                return lst[0] if ret == "array" else (tuple(lst) if ret == "tuple" else {f"r{i}": x for i, x in enumerate(lst)})
            top = outer
            if ex == "nested3":
                def outer3(*a, **k):
                    r = pt.trace_call(outer, *[x * 0.5 for x in a], **{kk: v * 0.5 for kk, v in k.items()})
                    return r
                top = outer3
            args = [B(a) for a in arg_terms]
            n = len(params)
            npos = {"pos": n, "kw": 0, "mixed": max(1, n // 2)}[pat.split("-")[0]]
            items = [(p[1].lower(), a) for p, a in zip(params[npos:], args[npos:])]
            if pat.endswith("-rev"):
                items.reverse()
            elif pat.endswith("-rot"):
                items = items[1:] + items[:1]
            r = pt.trace_call(top, *args[:npos], **dict(items))
            results += as_list(r, ret)
            inner_at = [["bin", "add", (["bin", "mul", a, ["py", 0.5]] if ex == "nested3" else a), ["py", 1.0]] for a in arg_terms]
            ref_terms += [["bin", "mul", ["py", 2.0], t] for t in substitute(outs, params, inner_at)]
        elif ex == "chain":
            # result of one call is the argument of another call (of 'scale-like' unary g)
            g_param = ["ph", "GP", params[0][2], params[0][3]]
            g_out = ["bin", "sub", ["bin", "mul", g_param, ["py", 3.0]], ["py", 1.0]]
            gfn = make_fn([g_param], [g_out], "array", None)
            a0 = B(arg_terms[0])
            g_res = pt.trace_call(gfn, a0) if pat == "pos" else pt.trace_call(gfn, gp=a0)
            args = [g_res] + [B(a) for a in arg_terms[1:]]
            r = call(fn, params, args, pat)
            results += as_list(r, ret)
            g_term = space.replace_leaf(g_out, T.tkey(g_param), arg_terms[0])
            ref_terms += substitute(outs, params, [g_term] + arg_terms[1:])
    except Exception as e:  # noqa: BLE001
        return {"key": case, "nontrivial": False, "outcome": "trace-rejected",
                "violations": [{"sig": {**progcheck.exc_sig("trace_call", e), "pattern": pat if "Incorrect arguments" in str(e) else "*"},
                                "msg": f"{where}: an advertised call pattern was rejected: " + progcheck.exc_msg("trace_call", e)}]}
    named = [[f"o{i}", t] for i, t in enumerate(ref_terms)]
    dag = pt.make_dict_of_named_arrays({f"o{i}": r for i, r in enumerate(results)})
    ncalls = get_num_call_sites(dag)
    if ncalls == 0:
        viol.append({"sig": {"kind": "no-call-site-after-tracing"}, "msg": f"{where}: traced graph has no call site"})
    # shapes / dtypes / values of the traced results
    vals = {}
    for val in ("ramp", "edge"):
        try:
            inputs, ref, ev = progcheck.reference(named, val)
        except Exception as e:  # noqa: BLE001
            return {"key": case, "nontrivial": False, "outcome": "numpy-reference-fails:" + type(e).__name__, "violations": viol}
        if ev.excluded:
            continue
        # arguments of parameters the body ignores still need a value (they are bound at the call)
        for k2, v2 in T.make_inputs(arg_terms, val).items():
            inputs.setdefault(k2, v2)
        vals[val] = (inputs, ref, ev)
    for i, r in enumerate(results):
        try:
            want = T.np_shape_dtype(ref_terms[i])
            if tuple(r.shape) != tuple(want[0]) or r.dtype != want[1]:
                viol.append({"sig": {"kind": "call-result-meta"}, "msg": f"{where}: result {i} is {r.shape}/{r.dtype}, direct application gives {want}"})
        except Exception as e:  # noqa: BLE001
            viol.append({"sig": {"kind": "call-result-meta-unreadable", "error": type(e).__name__}, "msg": f"{where}: {e}"})
    for val, (inputs, ref, ev) in vals.items():
        try:
            got = dageval.eval_dict(dag, inputs)
        except Exception as e:  # noqa: BLE001
            viol.append({"sig": {"kind": "traced-graph-unevaluable", "error": type(e).__name__}, "msg": f"{where}: {type(e).__name__}: {e}"})
            break
        for n in ref:
            bad = values.compare(got[n], ref[n], scale=ev.scale, nred=ev.nred, min_eps=ev.eps)
            if bad:
                viol.append({"sig": {"kind": "call-value", "extra": ex}, "msg": f"{where}: {n} valuation {val}: {bad}"})
    # inlining
    try:
        snap_before = None
        inl = pt.inline_calls(pt.tag_all_calls_to_be_inlined(pt.transform.deduplicate(dag)))      # (mappers require a graph without structural duplicates; two equal calls written separately are duplicates)
    except Exception as e:  # noqa: BLE001
        viol.append({"sig": {**progcheck.exc_sig("inline_calls", e)}, "msg": f"{where}: " + progcheck.exc_msg("inline_calls", e)})
        return {"key": case, "nontrivial": False, "outcome": "violation", "violations": viol[:5]}
    del snap_before
    left = get_num_call_sites(inl)
    if left != 0:
        viol.append({"sig": {"kind": "calls-left-after-inlining", "extra": ex}, "msg": f"{where}: {left} call site(s) remain after inline_calls (had {ncalls})"})
    else:
        for val, (inputs, ref, ev) in vals.items():
            try:
                got = dageval.eval_dict(inl, inputs)
            except Exception as e:  # noqa: BLE001
                viol.append({"sig": {"kind": "inlined-graph-unevaluable", "error": type(e).__name__}, "msg": f"{where}: {type(e).__name__}: {e}"})
                break
            for n in ref:
                bad = values.compare(got[n], ref[n], scale=ev.scale, nred=ev.nred, min_eps=ev.eps)
                if bad:
                    viol.append({"sig": {"kind": "inlined-value", "extra": ex}, "msg": f"{where}: {n} valuation {val}: {bad}"})
        # generated code for the inlined graph
        try:
            bp = pt.generate_loopy(inl, target=cexec.VerifCTarget())
            for val, (inputs, ref, ev) in vals.items():
                got = bp(**{k: v for k, v in inputs.items() if k in bp.kernel.arg_dict})
                for n in ref:
                    bad = values.compare(got[n], ref[n], scale=ev.scale, nred=ev.nred, min_eps=ev.eps, check_dtype=False)
                    if bad:
                        viol.append({"sig": {"kind": "inlined-codegen-value", "extra": ex}, "msg": f"{where}: {n} valuation {val}: {bad}"})
            counters["compiled"] += 1
        except Exception as e:  # noqa: BLE001
            viol.append({"sig": {**progcheck.exc_sig("generate_loopy(inlined)", e)}, "msg": f"{where}: " + progcheck.exc_msg("generate_loopy(inlined)", e)})
    return {"key": case, "nontrivial": True, "outcome": "ok" if not viol else "violation", "violations": viol[:5],
            "counters": dict(counters),
            "sample": {**case, "call_sites": ncalls, "reference_terms": ref_terms[:1]}}


def vacuity(summary):
    if summary["outcomes"].get("ok", 0) < 0.5 * summary["evaluations"]:
        return f"fewer than half the combinations decided ok: {dict(summary['outcomes'])}"
    return None
