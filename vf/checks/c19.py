"""C19 — raising an index lambda to a high-level operation never misreads it."""
from __future__ import annotations

import itertools
import warnings

import numpy as np

from vf import progcheck, space, values
from vf import terms as T

warnings.filterwarnings("ignore")

PROPERTY = "C19"
LEVEL = "exploration"
TECHNIQUE = ("bounded exhaustive enumeration of the index lambdas the public API produces for the listed operation kinds "
             "(every operator x operand kind x operand order x broadcasting pair, comparisons, logical ops, where, math "
             "functions, reductions over every axis subset, full, broadcast_to, astype, zeros_like) and of all single-"
             "site near-miss mutations of each (permuted / offset / reversed / constant subscripts, extra operand, "
             "shifted reduction bounds, renamed bindings); each raised with index_lambda_to_high_level_op, the returned "
             "operation interpreted with NumPy by an independent interpreter and compared with pointwise evaluation")
RULE = ("one case = one index lambda (API-produced or one mutation of an API-produced one, every mutation site x "
        "mutation kind enumerated); oracle: a returned HighLevelOp applied with NumPy equals the pointwise value on "
        "all valuations; API lambdas of the listed kinds must be recognised; near-misses must be raised correctly or "
        "reported UnknownIndexLambdaExpr, any other exception is a violation; distinct = distinct (term, mutation); "
        "non-trivial = a HighLevelOp was returned and evaluated, or a near-miss was correctly reported unknown")
ASSUMPTIONS = [
    "vf/scalar_interp.py gives the pointwise value of an index lambda (documented semantics)",
    "the HLO interpreter in this file gives the NumPy meaning of each HighLevelOp class",
    "value comparison modulo the result dtype (the raiser documents that it drops type casts)",
]
BATCH = 40


def bounds(tier):
    return {"mutation_kinds": len(MUTATIONS), "shapes": "square (3,3) and (3,), unit-axis and broadcasting pairs" +
            ("" if tier == "quick" else "; non-square (2,3), (2,3,2), (2,3,4) operands, all ordered pairs of 6 dtypes")}


# --------------------------------------------------------------------------
# API lambdas (as terms, so that NumPy gives the reference too)

def api_terms(tier):  # noqa: C901
    ph = space.ph
    S = (3, 3)
    pairs = [(S, S), (S, (3,)), ((3, 1), (1, 3)), ((), S), (S, ()), ((3,), (3,)), ((1,), (3,))]
    dts = [("float64", "float64"), ("int32", "float32"), ("int64", "int64"), ("bool", "bool"), ("complex128", "float64")]
    for op in space.ALL_BINOPS:
        for (s1, s2) in pairs:
            for d1, d2 in dts:
                yield "binop", space.mkbin(op, ph("a", s1, d1), ph("b", s2, d2))
        for sc in space.PY_SCALARS + space.NP_SCALARS + [["py", "nan"]]:
            for dt in ("float64", "int32", "bool", "complex128"):
                yield "binop-scalar", space.mkbin(op, ph("a", S, dt), sc)
                yield "binop-scalar", space.mkbin(op, sc, ph("a", S, dt))
        yield "binop-same", space.mkbin(op, ph("a", S, "float64"), ph("a", S, "float64"))
    for dc in ("bool", "int32", "float64"):
        for (sc, s1, s2) in [(S, S, S), ((3, 1), (1, 3), ()), (S, (3,), (3, 1)), ((), S, S)]:
            yield "where", ["where", ph("c", sc, dc), ph("a", s1, "float64"), ph("b", s2, "float64")]
        yield "where", ["where", ph("c", S, dc), ph("a", S, "float64"), ["py", 1.5]]
        yield "where", ["where", ph("c", S, dc), ["py", 2], ph("a", S, "int32")]
        yield "where", ["where", ph("c", S, dc), ph("a", S, "float64"), ["py", "nan"]]
    for fn in T.MATHFNS:
        for dt in ("float64", "float32", "complex128"):
            for shape in (S, (3,), (), (1, 3), (3, 1), (1,), (2, 1, 3)):
                yield "math", ["fn", fn, ph("a", shape, dt)]
    for shape in ((1, 3), (3, 1), (1,), (2, 1, 3), (1, 1)):
        yield "math", ["arctan2", ph("a", shape, "float64"), ph("b", shape, "float64")]
        for dt in ("float64", "int32", "bool"):
            yield "unary", ["neg", ph("a", shape, dt)]
            yield "unary", ["abs", ph("a", shape, dt)]
            yield "lnot", ["lnot", ph("a", shape, dt)]
            yield "zeros_like", ["zeros_like", ph("a", shape, dt)]
            yield "astype", ["astype", ph("a", shape, dt), "float32"]
            for op in (("bin", "add"), ("bin", "mul"), ("cmp", "less"), ("logic", "logical_and")):
                yield "binop", space.mkbin(op, ph("a", shape, dt), ph("b", shape, dt))
                yield "binop-scalar", space.mkbin(op, ph("a", shape, dt), ["py", 2])
            yield "where", ["where", ph("c", shape, "bool"), ph("a", shape, dt), ph("b", shape, dt)]
            yield "reduce", ["red", "sum", ph("a", shape, dt), None]
            yield "reduce", ["red", "amax", ph("a", shape, dt), 0]
    yield "math", ["arctan2", ph("a", S, "float64"), ph("b", S, "float64")]
    yield "math", ["arctan2", ph("a", S, "float64"), ["py", 2.0]]
    for dt in ("float64", "int32", "bool", "complex128"):
        yield "unary", ["neg", ph("a", S, dt)]
        yield "unary", ["abs", ph("a", S, dt)]
        yield "lnot", ["lnot", ph("a", S, dt)]
        yield "zeros_like", ["zeros_like", ph("a", S, dt)]
        yield "ones_like", ["ones_like", ph("a", S, dt)]
        for d2 in ("float64", "float32", "int64", "complex128", "int32", "int8", "uint16", "bool"):
            yield "astype", ["astype", ph("a", S, dt), d2]
    for d1, d2 in (("int64", "int8"), ("int64", "int32"), ("int32", "uint16"), ("int64", "float32"), ("float64", "float32")):
        yield "astype", ["astype", ph("a", S, d1), d2]
    for op in T.REDOPS:
        for shape in [(3,), S, (2, 3, 2), (1, 3)]:
            for ax in space.axis_subsets(len(shape)):
                for dt in ("float64", "int32", "bool"):
                    yield "reduce", ["red", op, ph("a", shape, dt), ax]
    for shape in [(3,), S, ()]:
        for v, dt in [(2.5, None), (3, "float32"), (True, None), (7, "int32"), (["py", "nan"], "float64")]:
            yield "full", ["full", list(shape), v, dt]
        yield "full", ["zeros", list(shape), "float64"]
        yield "full", ["ones", list(shape), "int32"]
    for shape, tgt in [((3,), S), ((1, 3), S), ((), S), ((3, 1), S), ((3, 1), (2, 3, 3)), ((3,), (3,)), ((1, 1), S)]:
        for dt in ("float64", "int32"):
            yield "broadcast_to", ["broadcast_to", ph("a", shape, dt), list(tgt)]
    if tier != "quick":
        # thorough: non-square and 3-axis shapes (an axis permutation or a mixed-up broadcast axis is invisible on
        # square operands), every ordered dtype pair
        D6 = ("bool", "int32", "int64", "float32", "float64", "complex128")
        pairs2 = [((2, 3), (2, 3)), ((2, 3), (3,)), ((2, 1), (1, 3)), ((2, 3, 2), (3, 2)), ((2, 3, 2), (2,)),
                  ((2, 3, 2), (3, 1)), ((3, 2), (2, 3, 2)), ((2, 1, 2), (3, 1)), ((), (2, 3))]
        for op in space.ALL_BINOPS:
            for (s1, s2) in pairs2:
                for d1 in D6:
                    for d2 in D6:
                        yield "binop", space.mkbin(op, ph("a", s1, d1), ph("b", s2, d2))
            for sc in space.PY_SCALARS + space.NP_SCALARS:
                for dt in D6:
                    yield "binop-scalar", space.mkbin(op, ph("a", (2, 3), dt), sc)
                    yield "binop-scalar", space.mkbin(op, sc, ph("a", (2, 3, 2), dt))
        for dc in ("bool", "int32", "float64"):
            for (sc, s1, s2) in [((2, 3), (2, 3), (3,)), ((2, 1), (1, 3), (2, 3)), ((3,), (2, 3, 3), (3, 1)), ((2, 3, 2), (2,), ())]:
                for d1, d2 in (("float64", "float64"), ("int32", "float64"), ("float32", "int64"), ("bool", "int32")):
                    yield "where", ["where", ph("c", sc, dc), ph("a", s1, d1), ph("b", s2, d2)]
        for fn in T.MATHFNS:
            for dt in ("float64", "float32", "complex128"):
                for shape in ((2, 3), (2, 3, 2)):
                    yield "math", ["fn", fn, ph("a", shape, dt)]
        for op in T.REDOPS:
            for shape in [(2, 3), (2, 3, 4), (2, 1, 3)]:
                for ax in space.axis_subsets(len(shape)):
                    for dt in D6:
                        yield "reduce", ["red", op, ph("a", shape, dt), ax]
        for shape, tgt in [((3,), (2, 3)), ((2, 1), (2, 3)), ((1, 3), (2, 3)), ((2, 1, 2), (2, 3, 2)), ((3, 1), (2, 3, 4)), ((), (2, 3, 2))]:
            for dt in D6:
                yield "broadcast_to", ["broadcast_to", ph("a", shape, dt), list(tgt)]
        for shape in [(2, 3), (2, 3, 2)]:
            for v, dt in [(2.5, None), (3, "float32"), (True, None), (7, "int32")]:
                yield "full", ["full", list(shape), v, dt]


# the operation kinds the property names: fill, binary operation, math call, where, reduction,
# broadcast, logical not (astype / zeros_like lambdas may be reported unknown, but never misread)
MUST_RECOGNISE = ("binop", "binop-scalar", "binop-same", "where", "math", "reduce", "full", "broadcast_to", "lnot")

# --------------------------------------------------------------------------
# near-miss mutations: each returns a list of mutated expressions (one per site)

MUTATIONS = ("permute-subscript", "offset-subscript", "reverse-subscript", "constant-subscript",
             "extra-operand", "redn-lower-bound-1", "redn-upper-bound-minus-1", "rename-binding",
             "swap-operands-of-subscripts", "wrap-in-neg", "duplicate-index", "extra-reduction-variable",
             "extra-output-axis")


def _map_children(e, f):
    """generic rebuild of a pymbolic expression node (expr_dataclass) with f applied to sub-expressions"""
    import dataclasses
    import pymbolic.primitives as p
    from collections.abc import Mapping
    if not isinstance(e, p.ExpressionNode) or not dataclasses.is_dataclass(e):
        return e

    def on(v):
        if isinstance(v, p.ExpressionNode):
            return f(v)
        if isinstance(v, tuple):
            return tuple(on(x) for x in v)
        if isinstance(v, Mapping):
            from constantdict import constantdict
            return constantdict({k: on(x) for k, x in v.items()})
        return v
    changes = {}
    for fld in dataclasses.fields(e):
        old = getattr(e, fld.name)
        new = on(old)
        if new is not old and (not isinstance(old, (tuple, Mapping)) or new != old or any(
                a is not b for a, b in zip(_flat(new), _flat(old)))):
            changes[fld.name] = new
    return dataclasses.replace(e, **changes) if changes else e


def _flat(v):
    from collections.abc import Mapping
    if isinstance(v, tuple):
        for x in v:
            yield from _flat(x)
    elif isinstance(v, Mapping):
        for x in v.values():
            yield from _flat(x)
    else:
        yield v


def subscripts_of(expr):
    import pymbolic.primitives as p
    found = []

    def walk(e):
        if isinstance(e, p.Subscript):
            found.append(e)
        _map_children(e, lambda c: (walk(c), c)[1])
        return e
    walk(expr)
    return found


def replace_node(expr, old, new):
    def rec(e):
        if e is old:
            return new
        return _map_children(e, rec)
    return rec(expr)


def mutate(il, kind):  # noqa: C901
    """list of (description, expr, bindings, extra kwargs) mutants of index lambda il"""
    import pymbolic.primitives as p
    from pytato.scalar_expr import Reduce
    out = []
    e = il.expr
    subs = subscripts_of(e)
    if kind == "permute-subscript":
        for s in subs:
            idx = s.index_tuple
            for i, j in itertools.combinations(range(len(idx)), 2):
                if idx[i] != idx[j]:
                    new = list(idx)
                    new[i], new[j] = new[j], new[i]
                    out.append((f"{s} -> swapped {i},{j}", replace_node(e, s, p.Subscript(s.aggregate, tuple(new))), None))
    elif kind in ("offset-subscript", "reverse-subscript", "constant-subscript"):
        for s in subs:
            shp = il.bindings[s.aggregate.name].shape
            for i, ix in enumerate(s.index_tuple):
                if not isinstance(ix, p.Variable) or not isinstance(shp[i], int) or shp[i] < 2:
                    continue
                n = shp[i]
                newi = {"offset-subscript": (ix + 1) % n, "reverse-subscript": (n - 1) - ix,
                        "constant-subscript": 0}[kind]
                new = list(s.index_tuple)
                new[i] = newi
                out.append((f"{s} axis {i} -> {newi}", replace_node(e, s, p.Subscript(s.aggregate, tuple(new))), None))
    elif kind == "extra-operand":
        from pytato.scalar_expr import TypeCast
        inner = e
        while isinstance(inner, TypeCast):
            inner = inner.inner_expr
        if isinstance(inner, (p.Sum, p.Product, p.LogicalAnd, p.LogicalOr, p.BitwiseOr, p.BitwiseAnd, p.BitwiseXor)):
            new = type(inner)((*inner.children, inner.children[0]))
            out.append(("third operand appended", replace_node(e, inner, new), None))
    elif kind in ("redn-lower-bound-1", "redn-upper-bound-minus-1"):
        if isinstance(e, Reduce):
            for v in e.bounds:
                lo, hi = e.bounds[v]
                if isinstance(hi, int) and hi >= 2:
                    nb = dict(e.bounds)
                    nb[v] = (lo + 1, hi) if kind == "redn-lower-bound-1" else (lo, hi - 1)
                    from constantdict import constantdict
                    out.append((f"bounds of {v} -> {nb[v]}", Reduce(e.inner_expr, e.op, constantdict(nb)), None))
    elif kind == "rename-binding":
        if il.bindings:
            name = sorted(il.bindings)[0]
            newb = dict(il.bindings)
            newb["zz"] = newb.pop(name)

            def ren(x):
                if isinstance(x, p.Variable) and x.name == name:
                    return p.Variable("zz")
                return _map_children(x, ren)
            out.append((f"binding {name} renamed zz", ren(e), newb))
    elif kind == "swap-operands-of-subscripts":
        # two operands exchange their subscripts' aggregates: a[i] op b[j] -> b[i] op a[j] (same shapes only)
        if len(subs) == 2 and subs[0].aggregate != subs[1].aggregate:
            s0, s1 = subs
            b0, b1 = il.bindings[s0.aggregate.name], il.bindings[s1.aggregate.name]
            if b0.shape == b1.shape and b0.dtype == b1.dtype and s0.index_tuple != s1.index_tuple:
                tmp = replace_node(e, s0, p.Subscript(s1.aggregate, s0.index_tuple))
                out.append(("aggregates swapped", replace_node(tmp, s1, p.Subscript(s0.aggregate, s1.index_tuple)), None))
    elif kind == "duplicate-index":
        # one index variable used on two axes: x[_0, _0] (a diagonal), sum_r x[r, r] (a trace)
        for s in subs:
            idx = s.index_tuple
            shp = il.bindings[s.aggregate.name].shape
            for i, j in itertools.permutations(range(len(idx)), 2):
                if idx[i] != idx[j] and isinstance(idx[j], p.Variable) and shp[i] == shp[j]:
                    new = list(idx)
                    new[i] = idx[j]
                    out.append((f"{s} axis {i} -> {idx[j]}", replace_node(e, s, p.Subscript(s.aggregate, tuple(new))), None))
    elif kind == "extra-reduction-variable":
        # a reduction over one more variable than the operand is indexed with: every term is counted twice
        if isinstance(e, Reduce):
            from constantdict import constantdict
            nb = dict(e.bounds)
            nb["_r9"] = (0, 2)
            out.append(("unused reduction variable _r9 in [0,2)", Reduce(e.inner_expr, e.op, constantdict(nb)), None))
    elif kind == "extra-output-axis":
        # the same expression as the value of a *larger* lambda: a new leading / trailing output axis of length 2 that no
        # operand spans (the lambda is "operation, then broadcast": not the operation)
        if all(isinstance(d, int) for d in il.shape) and not isinstance(e, Reduce):
            def shift(x):
                if isinstance(x, p.Variable) and x.name.startswith("_") and x.name[1:].isdigit():
                    return p.Variable(f"_{int(x.name[1:]) + 1}")
                return _map_children(x, shift)
            out.append(("new leading axis of length 2", shift(e), {"__shape__": (2, *il.shape)}))
            out.append(("new trailing axis of length 2", e, {"__shape__": (*il.shape, 2)}))
    elif kind == "wrap-in-neg":
        if il.dtype.kind in "fic" and not isinstance(e, Reduce):
            out.append(("negated", p.Product((-1, e)), None))
    return out


# --------------------------------------------------------------------------
# NumPy meaning of a HighLevelOp (independent interpreter)

def eval_hlo(hlo, shape, val_of):  # noqa: C901
    """val_of(array) -> ndarray value of a pytato operand"""
    import pytato as pt
    from pytato import raising as R
    import pytato.reductions as red

    def v(x):
        if isinstance(x, pt.Array):
            return val_of(x)
        return x
    with np.errstate(all="ignore"):
        if isinstance(hlo, R.FullOp):
            return np.full(shape, hlo.fill_value)
        if isinstance(hlo, R.BinaryOp):
            B = R.BinaryOpType
            f = {B.ADD: np.add, B.SUB: np.subtract, B.MULT: np.multiply, B.LOGICAL_OR: np.logical_or,
                 B.LOGICAL_AND: np.logical_and, B.BITWISE_OR: np.bitwise_or, B.BITWISE_AND: np.bitwise_and,
                 B.BITWISE_XOR: np.bitwise_xor, B.TRUEDIV: np.true_divide, B.FLOORDIV: np.floor_divide,
                 B.POWER: np.power, B.MOD: np.remainder, B.LESS: np.less, B.LESS_EQUAL: np.less_equal,
                 B.GREATER: np.greater, B.GREATER_EQUAL: np.greater_equal, B.EQUAL: np.equal,
                 B.NOT_EQUAL: np.not_equal}[hlo.binary_op]
            return np.asarray(f(v(hlo.x1), v(hlo.x2)))      # (the operation's own NumPy shape: it must be the lambda's)
        if isinstance(hlo, R.C99CallOp):
            from vf.scalar_interp import C99
            return np.asarray(C99[hlo.function](*[v(a) for a in hlo.args]))
        if isinstance(hlo, R.WhereOp):
            return np.asarray(np.where(v(hlo.condition), v(hlo.then), v(hlo.else_)))
        if isinstance(hlo, R.BroadcastOp):
            return np.broadcast_to(v(hlo.x), shape)
        if isinstance(hlo, R.LogicalNotOp):
            return np.asarray(np.logical_not(v(hlo.x)))
        if isinstance(hlo, R.ZerosLikeOp):
            return np.zeros_like(np.asarray(v(hlo.x)))
        if isinstance(hlo, R.ReduceOp):
            f = {red.SumReductionOperation: np.sum, red.ProductReductionOperation: np.prod,
                 red.MaxReductionOperation: np.amax, red.MinReductionOperation: np.amin,
                 red.AllReductionOperation: np.all, red.AnyReductionOperation: np.any}[type(hlo.op)]
            return f(v(hlo.x), axis=tuple(sorted(hlo.axes)))
    raise TypeError(f"unknown HighLevelOp {type(hlo).__name__}")


# --------------------------------------------------------------------------

def enumerate_cases(tier, seed):
    seen, terms = set(), []
    for fam, t in api_terms(tier):
        k = T.tkey(t)
        if k in seen:
            continue
        seen.add(k)
        if space.np_accepts(t) is None or progcheck.fragment_exclusion(t):
            continue
        terms.append((fam, t))
    return [{"batch": terms[i:i + BATCH]} for i in range(0, len(terms), BATCH)]


def check_lambda(il, inputs_list, where, fam, mutated, viol, ocs, dtype_deviates=False):  # noqa: C901
    import pytato as pt
    from pytato.raising import index_lambda_to_high_level_op
    from pytato.diagnostic import UnknownIndexLambdaExpr
    from vf import dageval, scalar_interp
    # pointwise value first (mutants may be invalid: out of bounds etc.)
    pvals = []
    for inputs in inputs_list:
        try:
            pvals.append(np.asarray(dageval.DagEval(inputs)(il)))
        except scalar_interp.InterpError:
            ocs.append("invalid-mutant")
            return None
    try:
        hlo = index_lambda_to_high_level_op(il)
    except UnknownIndexLambdaExpr:
        ocs.append(("near-miss:" if mutated else "api:") + "unknown")
        if not mutated and fam in MUST_RECOGNISE:
            viol.append({"sig": {"kind": "api-lambda-not-recognised", "family": fam if fam != "binop-same" else "binop"},
                         "msg": f"{where}: index_lambda_to_high_level_op raised UnknownIndexLambdaExpr for an API-produced lambda\nexpr: {il.expr}"})
        return "unknown"
    except NotImplementedError:
        ocs.append("not-implemented")
        return "unknown"
    except Exception as e:  # noqa: BLE001
        ocs.append("exception")
        viol.append({"sig": {**progcheck.exc_sig("raise", e)},
                     "msg": f"{where}: index_lambda_to_high_level_op raised {type(e).__name__}: {e}\nexpr: {il.expr}"})
        return "exception"
    for inputs, pv in zip(inputs_list, pvals):
        ev = dageval.DagEval(inputs)
        try:
            hv = np.asarray(eval_hlo(hlo, pv.shape, lambda a: np.asarray(ev(a))))
        except Exception as e:  # noqa: BLE001
            viol.append({"sig": {"kind": "hlo-not-applicable", "hlo": type(hlo).__name__, "error": type(e).__name__,
                                 "mutated": bool(mutated)},
                         "msg": f"{where}: applying {hlo!r} with NumPy failed: {type(e).__name__}: {e}"[:900]})
            return "bad"
        # The raiser drops the casts pytato inserts to reach the *result* dtype; NumPy's own promotion
        # re-creates those, so the operation applied with NumPy must give the lambda's dtype as well --
        # unless pytato's dtype for this operation deviates from NumPy's in the first place (a C03
        # matter: sum of bool, any/all, isnan, ...), in which case the comparison is made in the
        # lambda's dtype.
        if hv.dtype != pv.dtype:
            import dataclasses as _dc
            import pytato as _pt
            has_scalar = any(not isinstance(getattr(hlo, f.name), (_pt.Array, tuple, str)) and f.name not in ("binary_op", "op", "axes", "function")
                             for f in _dc.fields(hlo)) or any(
                not isinstance(a, _pt.Array) for f in _dc.fields(hlo) if isinstance(getattr(hlo, f.name), tuple)
                for a in getattr(hlo, f.name))
            # a scalar operand's NumPy type is not recorded in the operation (Python scalars are
            # weakly typed): no dtype claim can be made then
            if dtype_deviates or has_scalar:
                with np.errstate(all="ignore"):
                    if not (hv.dtype.kind == "c" and pv.dtype.kind != "c"):
                        hv = hv.astype(pv.dtype)
            else:
                viol.append({"sig": {"kind": "misread", "hlo": type(hlo).__name__, "as": mutated or fam, "what": "dtype"},
                             "msg": f"{where}: raised as {hlo!r}; with NumPy that operation yields dtype {hv.dtype}, the "
                                    f"lambda is {pv.dtype}\nexpr: {il.expr}"[:1200]})
                ocs.append("misread")
                return "bad"
        bad = values.compare(hv, pv, check_dtype=False, min_eps=float(np.finfo(np.float32).eps), nred=16,
                             scale=float(np.nanmax(np.abs(pv[np.isfinite(pv)]))) if pv.size and np.isfinite(pv).any() else 1.0)
        if bad:
            viol.append({"sig": {"kind": "misread", "hlo": type(hlo).__name__, "as": mutated or fam},
                         "msg": f"{where}: raised as {hlo!r} but that operation gives a different array: {bad}\nexpr: {il.expr}"[:1500]})
            ocs.append("misread")
            return "bad"
    ocs.append(("near-miss:" if mutated else "api:") + "raised-ok:" + type(hlo).__name__)
    return "ok"


def run_case(case):  # noqa: C901
    import pytato as pt
    viol, ocs, keys = [], [], []
    n = 0
    for fam, t in case["batch"]:
        b = T.PtBuilder()
        try:
            node = b(t)
        except Exception:  # noqa: BLE001
            ocs.append("construct-rejected")
            continue
        if not isinstance(node, pt.IndexLambda):
            ocs.append("not-an-index-lambda")
            continue
        inputs_list = []
        for val in values.VALUATIONS:
            inp = T.make_inputs(t, val)
            ev = T.NpEval(inp)
            try:
                ev(t)
            except Exception:  # noqa: BLE001
                continue
            if not ev.excluded:
                inputs_list.append(inp)
        if not inputs_list:
            ocs.append("all-valuations-excluded")
            continue
        n += 1
        try:
            dev = np.dtype(node.dtype) != T.np_shape_dtype(t)[1] or progcheck.dtype_deviation(t) is not None
        except Exception:  # noqa: BLE001
            dev = True
        r = check_lambda(node, inputs_list, f"{t}", fam, None, viol, ocs, dev)
        if r in ("ok", "unknown"):
            keys.append([t, None])
        for kind in MUTATIONS:
            try:
                muts = mutate(node, kind)
            except Exception as e:  # noqa: BLE001
                ocs.append("mutation-failed:" + type(e).__name__)
                continue
            for i, (descr, mexpr, mbind) in enumerate(muts):
                from constantdict import constantdict
                mshape, maxes = node.shape, node.axes
                if isinstance(mbind, dict) and "__shape__" in mbind:
                    mshape = mbind["__shape__"]
                    maxes = tuple(pt.Axis(frozenset()) for _ in mshape)
                    mbind = None
                try:
                    mil = pt.IndexLambda(expr=mexpr, shape=mshape, dtype=node.dtype,
                                         bindings=constantdict(mbind if mbind is not None else node.bindings),
                                         axes=maxes, tags=node.tags,
                                         non_equality_tags=node.non_equality_tags,
                                         var_to_reduction_descr=node.var_to_reduction_descr)
                except Exception:  # noqa: BLE001
                    ocs.append("mutant-unbuildable")
                    continue
                n += 1
                r = check_lambda(mil, inputs_list, f"{t} mutated [{kind}: {descr}]", fam, kind, viol, ocs, dev)
                if r in ("ok", "unknown"):
                    keys.append([t, kind, i])
    return {"evaluations": n, "keys": keys, "outcome": ocs, "violations": viol,
            "sample": {"term": case["batch"][0][1], "outcomes": ocs[:4]}}


def vacuity(summary):
    oc = summary["outcomes"]
    ok_api = sum(v for k, v in oc.items() if k.startswith("api:raised-ok"))
    nm = sum(v for k, v in oc.items() if k.startswith("near-miss:"))
    if ok_api < 500 or nm < 500:
        return f"too few decided lambdas: api raised ok {ok_api}, near-misses decided {nm}"
    return None
