"""C11 — generated kernels are memory-safe for every admissible size."""
from __future__ import annotations

import collections
import warnings

from vf import progcheck, runner, space
from vf import terms as T

warnings.filterwarnings("ignore")

PROPERTY = "C11"
LEVEL = "exploration"
TECHNIQUE = ("bounded exhaustive enumeration of array accesses: for every kernel generate_loopy produces for the program "
             "space (C01's operation instances, output variants, depth-2 compositions, plus symbolic-shape programs) "
             "every subscript of every instruction is evaluated at ALL integer points of its iname domain (within and "
             "reduction inames, bound temporaries resolved) for ALL size-parameter valuations 0..6, conditionals "
             "followed by their path condition, and checked against the declared shape")
RULE = ("one case = one program -> one kernel; per kernel every (instruction, subscript, domain point, size valuation) "
        "with an index that is a function of inames / size parameters / constants is checked: 0 <= index < shape per "
        "axis on every point whose path condition holds; data-dependent indices are excluded as the property says "
        "(counted); distinct = distinct programs; non-trivial = kernel generated and >=1 access checked")
ASSUMPTIONS = [
    "size parameters bounded by 0..6 (a bounded scope, not a symbolic decision: index expressions are quasi-affine "
    "with coefficients bounded by axis lengths, the critical sizes 0,1,2 are inside the scope)",
    "islpy is used only to enumerate the integer points of a domain with all parameters fixed",
    "loopy.expand_subst gives the instructions the kernel executes for substitution rules",
    "accesses inside hand-written loopy kernels called from the program are the caller's",
]
L2_SLICES_QUICK = 12


def bounds(tier):
    return {"size_parameter_range": [0, 6], "L2_slices": 1 if tier == "thorough" else L2_SLICES_QUICK}


def enumerate_cases(tier, seed):
    cases = []
    l1 = space.l1("quick" if tier == "quick" else "thorough")
    for f, t, _s, _d in l1:
        cases.append({"fam": f, "outs": [["out", t]]})
    for f, outs in space.symbolic_programs(tier):
        cases.append({"fam": "sym:" + f, "outs": outs})
    # the exhaustive node-parameter spaces of C02 (every slice, roll shift, stack/concatenate axis,
    # advanced-index placement, einsum specification incl. unit-axis broadcasting, CSR pattern)
    from vf.checks import c02
    seen = set()
    for g, t in c02.gen_terms("quick"):
        k = T.tkey(t)
        if k not in seen and g != "Reshape":
            seen.add(k)
            cases.append({"fam": "c02:" + g, "outs": [["out", t]]})
    rs = [{"fam": "c02:Reshape", "outs": [["out", t]]} for g, t in c02.gen_terms("quick") if g == "Reshape"]
    cases += rs if tier != "quick" else runner.slice_by_seed(rs, seed, 4)
    var = []
    for f, t, _s, _d in l1:
        v = space.program_variants(t)
        if len(v) > 1:
            var.append({"fam": f, "outs": v[1]})
    l2 = [{"fam": f, "outs": [["out", t]]} for f, t in space.l2("quick")]
    sib = [{"fam": f, "outs": o} for f, o in space.sibling_pair_programs()]
    if tier == "quick":
        var = runner.slice_by_seed(var, seed, 6)
        l2 = runner.slice_by_seed(l2, seed, L2_SLICES_QUICK)
        sib = runner.slice_by_seed(sib, seed, 4)
    # tagged variants: stored / substitution intermediates change the kernel's access structure
    tagged = []
    for c in (l2 if tier != "quick" else runner.slice_by_seed(l2, seed + 1, 4)):
        t = c["outs"][0][1]
        inner = [s for s in T.subterms(t) if s[0] not in ("ph", "dw", "dwv", "py", "nps", "s", "a")]
        if inner:
            for tg in (["stored"], ["subst"]):
                tagged.append({"fam": c["fam"] + "+" + tg[0],
                               "outs": [["out", space.replace_leaf(t, T.tkey(inner[0]), ["tag", tg, inner[0]])]]})
    return cases + var + l2 + sib + tagged


def run_case(case):
    import pytato as pt
    from vf import cexec, lpaccess
    outs = case["outs"]
    for _, t in outs:
        if progcheck.fragment_exclusion(t):
            return {"key": outs, "nontrivial": False, "outcome": "excluded", "violations": []}
    try:
        b, arrays = progcheck.build_outputs(outs)
        dag = pt.transform.deduplicate(pt.make_dict_of_named_arrays(arrays))
    except (NotImplementedError, ValueError, TypeError, IndexError) as e:
        return {"key": outs, "nontrivial": False, "outcome": "rejected:" + type(e).__name__, "violations": []}
    except Exception:  # noqa: BLE001
        return {"key": outs, "nontrivial": False, "outcome": "construct-exception", "violations": []}
    try:
        bp = pt.generate_loopy(dag, target=cexec.VerifCTarget())
    except Exception:  # noqa: BLE001
        return {"key": outs, "nontrivial": False, "outcome": "codegen-exception(C01)", "violations": []}
    try:
        viols, stats = lpaccess.check_kernel(bp.program)
    except AssertionError:
        # loopy itself cannot process the kernel (e.g. expanding a substitution rule whose body is a bare bool constant
        # trips pymbolic's arithmetic assertion): if no code can be generated from it there is no access to check --
        # that failure is C01's subject (code generation never fails), not a memory-safety matter
        try:
            cexec.device_code(bp.program)
        except Exception:  # noqa: BLE001
            return {"key": outs, "nontrivial": False, "outcome": "loopy-cannot-generate-code(C01)", "violations": []}
        raise
    except lpaccess.Unknown as e:
        return {"key": outs, "nontrivial": False, "outcome": "checker-unknown",
                "violations": [{"sig": {"kind": "checker-cannot-decide", "why": str(e)[:60]},
                                "msg": f"access checker met something it does not model: {e}\nprogram: {outs}"}]}
    viol = []
    if viols:
        root = outs[0][1]
        viol.append({"sig": {"kind": "out-of-bounds-access", "root": progcheck._root_sig(root),
                             "inner": sorted({progcheck._root_sig(s) for s in T.subterms(root)
                                              if s[0] not in ("ph", "dw", "dwv", "py", "nps", "s", "a")})},
                     "msg": f"program {outs}:\n" + "\n".join(viols[:3])})
    counters = collections.Counter({k: v for k, v in stats.items()})
    oc = "checked" if stats["checked_accesses"] else "no-checkable-access"
    return {"key": outs, "nontrivial": stats["checked_accesses"] > 0, "outcome": oc if not viol else "violation",
            "violations": viol, "counters": dict(counters),
            "sample": {"program": outs, **stats}}


def vacuity(summary):
    c = summary["counters"]
    if c.get("checked_accesses", 0) < 100000 or c.get("guarded_out", 0) < 1000:
        return f"too few accesses checked: {dict(c)}"
    return None
