"""C02 — lowering any array node to an index lambda preserves its meaning."""
from __future__ import annotations

import itertools
import warnings

import numpy as np

from vf import progcheck, space, values
from vf import terms as T

warnings.filterwarnings("ignore")

PROPERTY = "C02"
LEVEL = "exploration"
TECHNIQUE = ("bounded exhaustive enumeration of node parameters per high-level node kind (every slice/int index, "
             "every reshape refactoring in C and F order, every roll shift, permutation, stack/concatenate axis, "
             "advanced-index placement, einsum specification, CSR sparsity pattern); each node lowered with "
             "to_index_lambda and the result interpreted point by point by an independent evaluator, compared "
             "exactly with NumPy applied to the same term")
RULE = ("one case = one node built through the public API from placeholder / data operands; it must be of the "
        "high-level kind, to_index_lambda must return an IndexLambda with identical shape, dtype, axes and tags, and "
        "pointwise interpretation on the 'ramp' valuation (pairwise distinct entries) must equal NumPy exactly; "
        "distinct = distinct terms; non-trivial = lowered and compared")
ASSUMPTIONS = [
    "vf/scalar_interp.py implements the documented index-lambda semantics (pointwise, lazy If, bounds-checked subscripts)",
    "bounded scope: <=4 axes of length 0..5; einsum specs with <=3 operands over <=3 letters",
    "integer 'ramp' valuation: index remapping never rounds, so exact comparison is sound",
]
BATCH = 120
SLICES_REP = space.SLICES_REP


def bounds(tier):
    return {"slice_axis_len": 5, "reshape_axes": 3 if tier == "quick" else 4,
            "reshape_len": 4 if tier == "quick" else 5}


def shapes_upto(maxnd, maxlen, minlen=0):
    res = [()]
    for nd in range(1, maxnd + 1):
        res += list(itertools.product(range(minlen, maxlen + 1), repeat=nd))
    return res


def factorizations(size, maxnd, maxlen):
    """all shapes with <=maxnd axes, entries <=maxlen (0 allowed iff size==0), product == size"""
    res = []
    for nd in range(0, maxnd + 1):
        for s in itertools.product(range(0, maxlen + 1), repeat=nd):
            if int(np.prod(s)) == size if s else size == 1:
                res.append(s)
    return res


def einsum_specs():
    letters = "ijk"
    opspecs = [""] + [a for a in letters] + [a + b for a in letters for b in letters]
    seen = set()
    for nops in (1, 2, 3):
        for ops in itertools.product(opspecs, repeat=nops):
            used = sorted(set("".join(ops)))
            # canonical: letters appear in order i, j, k
            if used != list(letters[:len(used)]):
                continue
            first = []
            for c in "".join(ops):
                if c not in first:
                    first.append(c)
            if first != used:
                continue
            if nops == 3 and len("".join(ops)) > 4:
                continue
            for r in range(len(used) + 1):
                for out in itertools.permutations(used, r):
                    spec = ",".join(ops) + "->" + "".join(out)
                    if spec not in seen:
                        seen.add(spec)
                        yield spec, ops


def gen_terms(tier):  # noqa: C901
    ph = space.ph
    thorough = tier != "quick"
    # ---- BasicIndex
    for n in range(0, 6):
        x = ph("a", (n,), "int64")
        for i in range(-n, n):
            yield "BasicIndex", ["index", x, [i]]
        rng = [None] + list(range(-n - 2, n + 3))
        steps = sorted({1, -1, 2, -2, 3, -3, n + 1, -(n + 1)}) + [None]
        for st in rng:
            for sp in rng:
                for step in steps:
                    yield "BasicIndex", ["index", x, [["s", st, sp, step]]]
    x2 = ph("a", (3, 4), "int64")
    for s1 in SLICES_REP + [0, -1, 2]:
        for s2 in SLICES_REP + [1, -4]:
            yield "BasicIndex", ["index", x2, [s1, s2]]
    x3 = ph("a", (2, 3, 4), "int64")
    reps = SLICES_REP if thorough else SLICES_REP[:6]
    for s1 in reps[:6] + [1]:
        for s2 in reps + [-1]:
            for s3 in reps + [0]:
                yield "BasicIndex", ["index", x3, [s1, s2, s3]]
    yield "BasicIndex", ["index", ph("a", (2, 2, 2, 2), "int64"), [1, ["s", None, None, -1], "...", 0]]
    yield "BasicIndex", ["index", ph("a", (0, 3), "int64"), [["s", None, None, -1], ["s", 1, None, 2]]]
    # ---- Reshape
    maxnd, maxlen = (3, 4) if not thorough else (4, 5)
    for old in shapes_upto(maxnd, maxlen):
        size = int(np.prod(old)) if old else 1
        if size > 60:
            continue
        for new in factorizations(size, maxnd if thorough else 3, maxlen):
            if size == 0 and len(new) > 2 and not thorough:
                continue
            for order in "CF":
                yield "Reshape", ["reshape", ph("a", old, "int64"), list(new), order]
        if old:
            yield "Reshape", ["reshape", ph("a", old, "int64"), [-1], "C"]
            yield "Reshape", ["reshape", ph("a", old, "int64"), [-1], "F"]
            if size % 2 == 0 and size:
                yield "Reshape", ["reshape", ph("a", old, "int64"), [2, -1], "F"]
                yield "Reshape", ["reshape", ph("a", old, "int64"), [-1, 2], "C"]
    # the order argument as NumPy also accepts it (lower case)
    for old, new in [((2, 3), [3, 2]), ((2, 3, 4), [4, 6]), ((6,), [2, 3]), ((2, 3), [6])]:
        for order in "cf":
            yield "Reshape", ["reshape", ph("a", old, "int64"), new, order]
    # ---- Roll
    for n in range(0, 6):
        for sh in range(-2 * n - 1, 2 * n + 2):
            yield "Roll", ["roll", ph("a", (n,), "int64"), sh, 0]
    for shape in [(2, 3), (3, 1, 4), (2, 2, 2, 3), (0, 3)]:
        for ax in range(len(shape)):
            n = shape[ax]
            for sh in range(-n - 1, n + 2):
                yield "Roll", ["roll", ph("a", shape, "int64"), sh, ax]
    # ---- AxisPermutation
    for shape in [(), (3,), (2, 3), (2, 3, 4), (2, 1, 3, 2), (0, 2), (1, 1, 2)]:
        for p in itertools.permutations(range(len(shape))):
            yield "AxisPermutation", ["transpose", ph("a", shape, "int64"), list(p)]
        yield "AxisPermutation", ["T", ph("a", shape, "int64")]
    # ---- Stack / Concatenate
    for shape in [(), (3,), (2, 3), (0,), (2, 0), (1, 2, 2)]:
        for n in (1, 2, 3):
            for ax in range(0, len(shape) + 1):
                yield "Stack", ["stack", ax, *[ph("abc"[i], shape, "int64") for i in range(n)]]
            yield "Stack", ["stack", 0, *[ph("a", shape, "int64") for i in range(n)]]
    for nd in (1, 2, 3):
        for ax in range(nd):
            for lens in itertools.product(range(0, 4), repeat=2 if nd > 1 or not thorough else 3):
                base = [2, 3, 2][:nd]
                ops = []
                for i, ln in enumerate(lens):
                    s = list(base)
                    s[ax] = ln
                    ops.append(ph("abc"[i], tuple(s), "int64"))
                yield "Concatenate", ["concat", ax, *ops]
    for lens in itertools.product(range(0, 4), repeat=3):
        yield "Concatenate", ["concat", 0, *[ph("abc"[i], (ln,), "int64") for i, ln in enumerate(lens)]]
    yield "Concatenate", ["concat", 0, ph("a", (2,), "int64")]
    # ---- Advanced indexing
    A = lambda t: ["a", t]  # noqa: E731
    full = ["s", None, None, None]

    def idx_arrays(n):
        """index arrays of shapes () (2,) (2,1) (1,3) with entries over [-n, n-1]"""
        lo, hi = -n, n - 1
        vals = [lo, hi, 0, -1, max(lo, min(hi, 1))]
        yield ["dwv", f"s{n}", "int64", vals[0]]
        yield ["dwv", f"s{n}b", "int32", vals[1]]
        yield ["dwv", f"v{n}", "int64", [vals[0], vals[1]]]
        yield ["dwv", f"v{n}b", "int32", [vals[3], vals[2]]]
        yield ["dwv", f"c{n}", "int64", [[vals[1]], [vals[0]]]]
        yield ["dwv", f"r{n}", "int32", [[vals[0], vals[4], vals[1]]]]
        if n >= 2:
            for a, b in itertools.product(range(lo, hi + 1), repeat=2):
                if (a, b) not in ((vals[0], vals[1]), (vals[3], vals[2])) and (n <= 3):
                    yield ["dwv", f"w{n}_{a}_{b}", "int64", [a, b]]
    for n in (1, 2, 3, 4):
        x = ph("a", (n,), "int64")
        for ia in idx_arrays(n):
            yield "AdvancedIndex", ["index", x, [A(ia)]]
    shape = (3, 4, 2)
    x = ph("a", shape, "int64")
    basics = [full, ["s", None, None, -1], ["s", 1, None, 2], 0, -1]
    small = {n: [ia for ia in idx_arrays(n)][:6] for n in (2, 3, 4)}
    # one index array at every axis x basic indices elsewhere
    for pos in range(3):
        for ia in small[shape[pos]]:
            others = [basics if thorough else basics[:4]] * 2
            for o in itertools.product(*others):
                idx = list(o)
                idx.insert(pos, A(ia))
                yield "AdvancedIndex", ["index", x, idx]
    # two index arrays at every pair of axes (contiguous and non-contiguous)
    for (p1, p2) in [(0, 1), (1, 2), (0, 2)]:
        rest = [i for i in range(3) if i not in (p1, p2)][0]
        for i1, i2 in itertools.product(range(6), repeat=2):
            a1, a2 = small[shape[p1]][i1], small[shape[p2]][i2]
            try:
                np.broadcast_shapes(np.shape(a1[3]), np.shape(a2[3]))
            except ValueError:
                continue
            for o in (basics if thorough else basics[:4]):
                idx = [None, None, None]
                idx[p1], idx[p2], idx[rest] = A(a1), A(a2), o
                yield "AdvancedIndex", ["index", x, idx]
    for i1, i2, i3 in itertools.product(range(0, 6, 2), repeat=3):
        a1, a2, a3 = small[3][i1], small[4][i2], small[2][i3]
        try:
            np.broadcast_shapes(np.shape(a1[3]), np.shape(a2[3]), np.shape(a3[3]))
        except ValueError:
            continue
        yield "AdvancedIndex", ["index", x, [A(a1), A(a2), A(a3)]]
    # ---- Einsum
    for spec, ops in einsum_specs():
        sizes = {"i": 2, "j": 3, "k": 2}
        operands = [ph("abc"[n], tuple(sizes[c] for c in o), "int64") for n, o in enumerate(ops)]
        yield "Einsum", ["einsum", spec, *operands]
        # unit-axis broadcasting variants: every single operand in turn reads a repeated letter
        # through an axis of length 1 (so both "unit operand first" and "longer operand first")
        cnt = {}
        for o in ops:
            for c in set(o):
                cnt[c] = cnt.get(c, 0) + 1
        rep = [c for c in "ijk" if cnt.get(c, 0) >= 2]
        if rep and len(ops) <= 3:
            for c0 in rep:
                for which in range(len(ops)):
                    if c0 not in ops[which]:
                        continue
                    operands2 = list(operands)
                    shp = tuple(1 if c == c0 else sizes[c] for c in ops[which])
                    operands2[which] = ph("abc"[which], shp, "int64")
                    yield "Einsum", ["einsum", spec, *operands2]
    for s1, s2 in [((2, 3), (3, 2)), ((3,), (3,)), ((2, 3), (3,)), ((3,), (3, 2)), ((2, 2, 3), (3, 2)),
                   ((2, 2, 3), (2, 3, 2)), ((2, 3), (2, 3, 2)), ((2, 1, 2, 3), (3, 3, 2)), ((2, 0), (0, 3)),
                   ((1, 2, 3), (2, 3, 2))]:
        yield "Einsum", ["matmul", ph("a", s1, "int64"), ph("b", s2, "int64")]
    # ---- CSRMatmul
    n = 0
    for (nr, nc) in [(2, 3), (3, 2), (1, 1), (0, 2)]:
        for cols, rs in space.csr_patterns(nr, nc, 3):
            nnz = len(cols)
            vals = ["dwv", f"v{nnz}", "int64", list(range(2, 2 + nnz)), [nnz]]
            ct = ["dwv", f"c{n}", "int32", cols, [nnz]]
            rt = ["dwv", f"r{n}", "int32", rs, [nr + 1]]
            n += 1
            for xs in [(nc,), (nc, 2)]:
                yield "CSRMatmul", ["csrmm", [nr, nc], vals, ct, rt, ph("a", xs, "int64")]


QUICK_EXTRA_SLICES = 24


def enumerate_cases(tier, seed):
    from vf import runner
    seen = set()
    terms = []

    def take(gen, into):
        for g, t in gen:
            k = T.tkey(t)
            if k in seen:
                continue
            seen.add(k)
            into.append((g, t))
    take(gen_terms(tier), terms)
    if tier == "quick":
        # plus the 1/N slice (chosen by VERIF_SEED) of what only the thorough tier enumerates
        extra = []
        take(gen_terms("thorough"), extra)
        terms += runner.slice_by_seed(extra, seed, QUICK_EXTRA_SLICES)
    terms = [(g, t) for g, t in terms if space.np_accepts(t) is not None]
    return [{"batch": terms[i:i + BATCH]} for i in range(0, len(terms), BATCH)]


KIND_CLASSES = {
    "BasicIndex": ("BasicIndex",), "Reshape": ("Reshape",), "Roll": ("Roll",),
    "AxisPermutation": ("AxisPermutation",), "Stack": ("Stack",), "Concatenate": ("Concatenate",),
    "AdvancedIndex": ("AdvancedIndexInContiguousAxes", "AdvancedIndexInNoncontiguousAxes"),
    "Einsum": ("Einsum",), "CSRMatmul": ("CSRMatmul",),
}


def run_one(g, t):
    import pytato as pt
    from vf import dageval, tagdefs
    viol = []
    b = T.PtBuilder()
    try:
        node = b(t)
    except (ValueError, IndexError, TypeError, NotImplementedError) as e:
        return "pt-rejects:" + type(e).__name__, viol, None
    except Exception as e:  # noqa: BLE001
        viol.append({"sig": progcheck.exc_sig("construct", e), "msg": progcheck.exc_msg("construct", e, t)})
        return "construct-exception", viol, None
    kind = type(node).__name__
    if kind not in KIND_CLASSES[g]:
        # e.g. roll by 0 / identity transposes return the operand: nothing to lower
        return "not-a-" + g + ":" + kind, viol, None
    # tag the node, one axis, so that propagation of metadata is observable
    node = node.tagged(tagdefs.UserArrayTag("c02"))
    if node.ndim:
        node = node.with_tagged_axis(node.ndim - 1, tagdefs.UserAxisTag("last"))
    try:
        il = pt.to_index_lambda(node)
    except Exception as e:  # noqa: BLE001
        viol.append({"sig": {**progcheck.exc_sig("to_index_lambda", e), "node": kind},
                     "msg": progcheck.exc_msg("to_index_lambda", e, t)})
        return "lowering-exception", viol, kind
    if not isinstance(il, pt.IndexLambda):
        viol.append({"sig": {"kind": "not-an-index-lambda", "node": kind}, "msg": f"{t}: got {type(il).__name__}"})
        return "violation", viol, kind
    for attr in ("shape", "dtype", "axes", "tags"):
        if getattr(il, attr) != getattr(node, attr):
            viol.append({"sig": {"kind": "metadata", "attr": attr, "node": kind},
                         "msg": f"{t}: lowered .{attr} = {getattr(il, attr)!r} != node's {getattr(node, attr)!r}"})
    inputs = T.make_inputs(t, "ramp")
    ref = np.asarray(T.NpEval(inputs)(t))
    try:
        got = dageval.DagEval(inputs)(il)
    except Exception as e:  # noqa: BLE001
        from vf.scalar_interp import OutOfBounds
        k = "out-of-bounds-read" if isinstance(e, OutOfBounds) else "interp-error"
        viol.append({"sig": {"kind": k, "node": kind, "error": type(e).__name__},
                     "msg": f"{t}: interpreting the lowered expression failed: {type(e).__name__}: {e}\nexpr: {il.expr}"})
        return "violation", viol, kind
    bad = values.compare(got, ref, check_dtype=False)
    if bad:
        viol.append({"sig": {"kind": "wrong-value", "node": kind},
                     "msg": f"{t}: lowered index lambda differs from NumPy: {bad}\nexpr: {il.expr}"})
    # the evaluator's own conformance: node evaluated by its NumPy meaning == NumPy on the term
    try:
        viaeval = dageval.DagEval(inputs)(node)
        bad2 = values.compare(viaeval, ref, check_dtype=False)
        if bad2:
            viol.append({"sig": {"kind": "reference-evaluators-disagree", "node": kind},
                         "msg": f"{t}: dageval(node) != eval_np(term): {bad2}"})
    except Exception as e:  # noqa: BLE001
        viol.append({"sig": {"kind": "reference-evaluators-disagree", "node": kind, "error": type(e).__name__},
                     "msg": f"{t}: dageval(node) raised {type(e).__name__}: {e}"})
    return ("ok" if not viol else "violation"), viol, kind


def run_case(case):
    viol, ocs, keys = [], [], []
    for g, t in case["batch"]:
        oc, v, kind = run_one(g, t)
        ocs.append((kind or g) + ":" + oc.split(":")[0])
        viol += v
        if oc in ("ok", "violation"):
            keys.append(t)
    return {"evaluations": len(case["batch"]), "keys": keys, "outcome": ocs, "violations": viol,
            "sample": {"term": case["batch"][0][1], "outcome": ocs[0]}}


def vacuity(summary):
    oc = summary["outcomes"]
    missing = [k for kinds in KIND_CLASSES.values() for k in kinds if oc.get(k + ":ok", 0) < 20]
    if missing:
        return f"node kinds with fewer than 20 verified lowerings: {missing}"
    return None
