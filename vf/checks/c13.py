"""C13 — cached mappers visit each node once, preserve sharing and reach every child."""
from __future__ import annotations

import collections
import importlib
import pkgutil
import signal
import warnings

import numpy as np

from vf import dagfam, progcheck, reflect

warnings.filterwarnings("ignore")

PROPERTY = "C13"
LEVEL = "model_checking"
TECHNIQUE = ("exhaustive product (every mapper class discovered reflectively by importing all pytato modules, plus every "
             "mapper-backed public function) x (every graph of a sharing-heavy family: diamonds, fans, ladders with up to "
             "2^60 paths, one node reached through every kind of edge, with and without structural duplicates, tagged / "
             "untagged); every per-node method invocation is counted through a generated subclass and compared with the "
             "state space of the graph enumerated by an independent reflective walk over dataclass fields")
RULE = ("states = nodes of the graph (reflective walk), transitions = edges followed; one case = (mapper, graph): on "
        "duplicate-free graphs a cached mapper invokes its dispatch method exactly once per distinct node reached, the set "
        "reached contains every array the reflective walk reaches in the same scope, total invocations stay below 50x "
        "the node count (exponential re-traversal detector); transformation mappers return the argument itself for the "
        "identity transformation, never more distinct nodes than given, one result object per input node; on graphs with "
        "structural duplicates collision-checking mappers raise the collision error; traces_validated = mapper runs")
ASSUMPTIONS = [
    "vf/reflect.py enumerates the children of a node from its dataclass fields (the model of the graph)",
    "mapper classes needing arguments are instantiated from the recipe table in this file; a class without a recipe is "
    "listed in the evidence (counter 'mapper_without_recipe'), not assumed",
    "invocation counting wraps every map_* method in a generated subclass (clones made by clone_for_callee share the counters)",
]
BUDGET_FACTOR = 50


class Budget(Exception):
    pass


def bounds(tier):
    return {"graphs": len(dagfam.all_graphs(tier)), "ladder_depth": 60, "budget_factor": BUDGET_FACTOR}


def all_mapper_classes():
    import pytato
    from pytato.transform import Mapper
    for m in pkgutil.walk_packages(pytato.__path__, "pytato."):
        try:
            importlib.import_module(m.name)
        except Exception:  # noqa: BLE001
            pass

    def subs(c):
        out = set()
        for s in c.__subclasses__():
            if s.__name__.startswith("Counting"):
                continue
            out.add(s)
            out |= subs(s)
        return out
    res = {}
    for c in subs(Mapper):
        if c.__module__.startswith("pytato"):
            res[c.__module__ + "." + c.__name__] = c
    return res


def counting_subclass(cls):
    counts = collections.Counter()
    visited = {}
    total = [0]
    limit = [10 ** 9]
    ns = {}
    eff_cache = {}

    def effective(self, expr):
        """the method Mapper.rec dispatches to for this node type (its own _mapper_method, else the
        first one along the MRO that the mapper implements, else handle_unsupported_array)"""
        k = type(expr)
        if k not in eff_cache:
            name = getattr(k, "_mapper_method", None)
            if name is None or not hasattr(self, name):
                name = None
                for c in k.__mro__[1:]:
                    mn = getattr(c, "_mapper_method", None)
                    if mn and hasattr(self, mn):
                        name = mn
                        break
                if name is None:
                    name = "handle_unsupported_array" if k.__name__ != "FunctionDefinition" else "map_function_definition"
            eff_cache[k] = name
        return eff_cache[k]
    for name in dir(cls):
        if not (name.startswith("map_") or name == "handle_unsupported_array"):
            continue
        orig = getattr(cls, name)
        if not callable(orig):
            continue

        def make(orig, name):
            def wrapper(self, expr, *a, **k):
                if effective(self, expr) == name:
                    counts[id(expr)] += 1
                    visited[id(expr)] = expr
                total[0] += 1
                if total[0] > limit[0]:
                    raise Budget(f"{total[0]} method invocations")
                return orig(self, expr, *a, **k)
            return wrapper
        ns[name] = make(orig, name)
    sub = type("Counting" + cls.__name__, (cls,), ns)
    sub._vf = (counts, visited, total, limit)
    return sub


# --------------------------------------------------------------------------
# recipes: how to instantiate and run a mapper class on a DictOfNamedArrays
#   kind: 'cached' (once per node required), 'transform' (cached + result checks), 'uncached', 'single-node', 'skip'

def recipes():  # noqa: C901
    import pytato as pt
    from pytato.tags import ImplStored

    def run_plain(m, g):
        return m(g)

    def run_each_output(m, g):
        return [m(g._data[k]) for k in g]
    R = {}

    def add(name, kind, make, run=run_plain, identity=False, needs=(), **flags):
        R[name] = {"kind": kind, "make": make, "run": run, "identity": identity, "needs": needs, **flags}
    T = "pytato.transform."
    A = "pytato.analysis."
    add(T + "CopyMapper", "transform", lambda C, g: C(), identity=True)
    add(T + "CopyMapperWithExtraArgs", "skip", None)
    add(T + "TransformMapper", "skip", None)
    add(T + "TransformMapperWithExtraArgs", "skip", None)
    add(T + "CachedMapper", "skip", None)
    add(T + "CombineMapper", "skip", None)
    add(T + "Deduplicator", "transform", lambda C, g: C(), identity=True)
    add(T + "DataWrapperDeduplicator", "transform", lambda C, g: C(), identity=True)
    add(T + "CachedMapAndCopyMapper", "transform", lambda C, g: C(lambda x: x), identity=True)
    add(T + "DependencyMapper", "cached", lambda C, g: C())
    add(T + "InputGatherer", "cached", lambda C, g: C())
    add(T + "ListOfInputsGatherer", "cached", lambda C, g: C())
    add(T + "SizeParamGatherer", "cached", lambda C, g: C())
    add(T + "SubsetDependencyMapper", "cached", lambda C, g: C(frozenset(g._data.values())))
    add(T + "CachedWalkMapper", "skip", None)   # abstract key
    add(T + "TopoSortMapper", "cached", lambda C, g: C())
    add(T + "WalkMapper", "uncached", lambda C, g: C())
    add(T + "UsersCollector", "cached", lambda C, g: C())
    add(A + "NodeCountMapper", "cached", lambda C, g: C())
    add(A + "NodeMultiplicityMapper", "cached", lambda C, g: C())
    add(A + "TagCountMapper", "cached", lambda C, g: C(ImplStored))
    add(A + "MaterializedNodeCollector", "cached", lambda C, g: C())
    add(A + "ListOfUsersCollector", "cached", lambda C, g: C())
    add(A + "ListOfDirectPredecessorsGetter", "single-node", lambda C, g: C())
    add("pytato.analysis.CallSiteCountMapper", "cached", lambda C, g: C())
    add("pytato.codegen.NamesValidityChecker", "cached", lambda C, g: C())
    add("pytato.distributed.verify._SeenNodesWalkMapper", "cached", lambda C, g: C())
    add("pytato.transform.calls.InlineMarker", "transform", lambda C, g: C())
    add("pytato.transform.calls.Inliner", "transform", lambda C, g: C(), identity=True)
    add("pytato.transform.calls.PlaceholderSubstitutor", "skip", None)   # used per call frame only (C12)
    add("pytato.transform.dead_code_elimination.DeadCodeEliminator", "transform", lambda C, g: C(), identity=True)
    add("pytato.transform.remove_broadcasts_einsum.EinsumWithNoBroadcastsRewriter", "transform",
        lambda C, g: C(), run=lambda m, g: m(g, ()), identity=True)

    def mk_dist(C, g):
        from pytato.transform.einsum_distributive_law import DoNotDistribute
        return C(lambda e: DoNotDistribute())
    add("pytato.transform.einsum_distributive_law.EinsumDistributiveLawMapper", "transform", mk_dist,
        run=lambda m, g: m(g, None), identity=True)

    def mk_axis(C, g):
        return C({}, tag_corresponding_redn_descr=True) if True else None
    add("pytato.transform.metadata.AxisTagAttacher", "transform", mk_axis, identity=True)
    add("pytato.transform.metadata.AxesTagsEquationCollector", "cached", lambda C, g: C(__import__("pytools.tag").tag.Tag),
        ignores_shape_components=True)

    def mk_mpms(C, g):
        from pytato.analysis import get_list_of_users  # noqa: F401
        from pytato.transform import UsersCollector  # noqa: F401
        from pytato.transform.materialize import _get_materialized_nodes  # noqa: F401
        raise NotImplementedError
    add("pytato.transform.materialize.MPMSMaterializer", "via-function", None)

    def mk_pre(C, g):
        from vf.cexec import VerifCTarget
        return C(VerifCTarget())
    # lowering makes derived quantities (normalised slice bounds, size expressions) explicit nodes: growth is its job
    add("pytato.codegen.CodeGenPreprocessor", "transform", mk_pre, needs=("no-calls", "no-dist"), lowering=True)
    add("pytato.transform.lower_to_index_lambda.ToIndexLambdaMapper", "single-node", lambda C, g: C())
    add("pytato.stringifier.Reprifier", "uncached-bounded", lambda C, g: C(), run=run_each_output)
    add("pytato.visualization.dot.ArrayToDotNodeInfoMapper", "cached", lambda C, g: C())
    add("pytato.visualization.fancy_placeholder_data_flow.FancyDotWriter", "skip", None)
    for nm in ("pytato.utils.ShapeExpressionMapper", "pytato.utils.ShapeToISLExpressionMapper",
               "pytato.distributed.partition._DistributedInputReplacer", "pytato.distributed.partition._LocalSendRecvDepGatherer",
               "pytato.distributed.partition._ValueDependencyMapper",
               "pytato.target.loopy.codegen.CodeGenMapper", "pytato.target.python.numpy_like.NumpyCodegenMapper"):
        add(nm, "via-function", None)
    return R


PUBLIC_FUNCTIONS = collections.OrderedDict()


def _pf():
    import pytato as pt
    import pytato.analysis as pa
    import pytato.transform as ptt
    F = PUBLIC_FUNCTIONS
    if F:
        return F
    F["deduplicate"] = (lambda g: ptt.deduplicate(g), "identity-if-dupfree", ())
    F["copy_dict_via_CopyMapper"] = (lambda g: ptt.CopyMapper()(g), "identity", ())
    F["map_and_copy_id"] = (lambda g: ptt.map_and_copy(g, lambda x: x), "identity", ())
    F["deduplicate_data_wrappers"] = (lambda g: ptt.deduplicate_data_wrappers(g), "identity", ())
    F["eliminate_dead_code"] = (lambda g: pt.eliminate_dead_code(g), "identity", ())
    F["materialize_with_mpms"] = (lambda g: pt.materialize_with_mpms(g), "transform", ())
    F["unify_axes_tags"] = (lambda g: pt.unify_axes_tags(g), "transform", ())
    F["tag_all_calls_to_be_inlined"] = (lambda g: pt.tag_all_calls_to_be_inlined(g), "transform", ())
    F["inline_calls(tagged)"] = (lambda g: pt.inline_calls(pt.tag_all_calls_to_be_inlined(g)), "transform-may-grow", ())
    def strip_user_tags(g):
        from vf import tagdefs

        def f(x):
            if isinstance(x, pt.Array) and x.tags_of_type(tagdefs.UserArrayTag):
                return x.without_tags(next(iter(x.tags_of_type(tagdefs.UserArrayTag))))
            return x
        return ptt.map_and_copy(g, f)
    F["map_and_copy(strip user tags)"] = (strip_user_tags, "transform", ())
    F["rewrite_einsums_with_no_broadcasts"] = (lambda g: pt.rewrite_einsums_with_no_broadcasts(g), "identity", ())
    F["get_num_nodes"] = (lambda g: pa.get_num_nodes(g), "analysis", ())
    F["get_node_type_counts"] = (lambda g: pa.get_node_type_counts(g), "analysis", ())
    F["get_num_call_sites"] = (lambda g: pa.get_num_call_sites(g), "analysis", ())
    F["get_nusers"] = (lambda g: pa.get_nusers(g), "analysis", ())
    F["get_list_of_users"] = (lambda g: pa.get_list_of_users(g), "analysis", ())
    F["collect_materialized_nodes"] = (lambda g: pa.collect_materialized_nodes(g), "analysis", ())
    F["get_users"] = (lambda g: ptt.get_users(g), "analysis", ())
    F["get_dependencies"] = (lambda g: ptt.get_dependencies(g), "analysis", ())
    F["rec_get_user_nodes"] = (lambda g: ptt.rec_get_user_nodes(g, next(iter(g._data.values()))), "analysis", ())
    F["get_dot_graph"] = (lambda g: pt.get_dot_graph(g), "analysis", ())
    F["repr"] = (lambda g: [repr(g._data[k]) for k in g], "analysis", ())
    F["hash+eq"] = (lambda g: [hash(g._data[k]) for k in g] + [g._data[k] == g._data[k] for k in g], "analysis", ())
    F["PytatoKeyBuilder"] = (lambda g: pa.PytatoKeyBuilder()(g), "analysis", ())
    F["pickle"] = (lambda g: __import__("pickle").loads(__import__("pickle").dumps(g)), "analysis", ("no-loopy",))

    def gen(g):
        from vf.cexec import VerifCTarget
        return pt.generate_loopy(g, target=VerifCTarget())
    F["generate_loopy"] = (gen, "analysis", ("no-dist", "no-sym-recv", "codegen"))
    return F


def enumerate_cases(tier, seed):
    cases = []
    classes = sorted(all_mapper_classes())
    for gname, _b, _dup in dagfam.all_graphs(tier):
        for c in classes:
            cases.append({"what": "mapper", "mapper": c, "graph": gname})
        for f in _pf():
            cases.append({"what": "function", "function": f, "graph": gname})
    return cases


def graph_props(gname):
    return {"has_calls": gname in ("edges", "edges-tagged", "edges-dup", "edges-dup-tagged", "edges-nodist") or gname.startswith("shared-defs"),
            "has_dist": gname in ("edges", "edges-tagged", "edges-dup", "edges-dup-tagged", "edges-nocalls"),
            "edges": gname.startswith("edges")}


class _Alarm(Exception):
    pass


def _alarm(signum, frame):
    raise _Alarm()


def run_case(case):  # noqa: C901
    import pytato as pt
    graphs = {n: (b, d) for n, b, d in dagfam.all_graphs("thorough")}
    build, has_dup = graphs[case["graph"]]
    g = build()
    props = graph_props(case["graph"])
    viol = []
    counters = collections.Counter()
    top_scope = None
    for owner, nodes in reflect.scopes(g):
        if owner is None:
            top_scope = nodes
    all_nodes = reflect.walk(g)
    nnodes = len(all_nodes)
    nedges = sum(len(reflect.child_edges(n)) for n in all_nodes)
    where = f"{case.get('mapper') or case.get('function')} on graph {case['graph']}"
    if case["what"] == "function":
        fn, kind, needs = _pf()[case["function"]]
        if ("no-dist" in needs and props["has_dist"]) or ("no-loopy" in needs and props["has_calls"]):
            return {"key": case, "nontrivial": False, "outcome": "function-not-applicable", "violations": [],
                    "states": nnodes, "transitions": nedges}
        snap = reflect.snapshot(g)
        old = signal.signal(signal.SIGALRM, _alarm)
        signal.alarm(60)
        try:
            r = fn(g)
        except _Alarm:
            viol.append({"sig": {"kind": "does-not-terminate-in-60s", "function": case["function"]},
                         "msg": f"{where} ({nnodes} nodes): no result within 60 s (exponential re-traversal?)"})
            return {"key": case, "nontrivial": True, "outcome": "violation", "violations": viol, "states": nnodes,
                    "transitions": nedges, "traces": 1}
        except Exception as e:  # noqa: BLE001
            signal.alarm(0)
            if has_dup and ("collision" in str(e) or "duplicate" in str(e)):
                return {"key": case, "nontrivial": True, "outcome": "collision-reported", "violations": [],
                        "states": nnodes, "transitions": nedges, "traces": 1}
            if "codegen" in needs or isinstance(e, NotImplementedError):
                return {"key": case, "nontrivial": False, "outcome": "function-refused:" + type(e).__name__,
                        "violations": [], "states": nnodes, "transitions": nedges, "traces": 1}
            viol.append({"sig": {**progcheck.exc_sig(case["function"], e)}, "msg": f"{where}: " + progcheck.exc_msg(case["function"], e)})
            return {"key": case, "nontrivial": True, "outcome": "violation", "violations": viol, "states": nnodes,
                    "transitions": nedges, "traces": 1}
        finally:
            signal.alarm(0)
            signal.signal(signal.SIGALRM, old)
        if reflect.snapshot(g) != snap:
            viol.append({"sig": {"kind": "argument-mutated", "function": case["function"]}, "msg": where})
        if kind in ("identity", "identity-if-dupfree") and not has_dup and not (
                case["graph"].startswith("shared-buffers") and "data_wrappers" in case["function"]):
            if r is not g:
                same = isinstance(r, pt.DictOfNamedArrays) and all(r._data[k] is g._data[k] for k in g)
                if not same:
                    viol.append({"sig": {"kind": "identity-transformation-rebuilds", "function": case["function"]},
                                 "msg": f"{where}: nothing to change, but the outputs are not the argument's own objects"})
        if kind in ("identity", "identity-if-dupfree", "transform") and isinstance(r, pt.DictOfNamedArrays):
            nout = _distinct(r)
            nin = _distinct(g)
            if nout > nin:
                viol.append({"sig": {"kind": "more-distinct-nodes", "function": case["function"]},
                             "msg": f"{where}: result has {nout} distinct nodes, argument {nin}"})
            if not has_dup and reflect.has_structural_duplicates(r):
                viol.append({"sig": {"kind": "result-has-duplicates", "function": case["function"]},
                             "msg": f"{where}: duplicate-free argument, result contains structurally equal distinct nodes"})
        return {"key": case, "nontrivial": True, "outcome": "ok" if not viol else "violation", "violations": viol,
                "states": nnodes, "transitions": nedges, "traces": 1,
                "sample": {**case, "nodes": nnodes, "edges": nedges}}
    # ---- mapper classes
    classes = all_mapper_classes()
    cls = classes[case["mapper"]]
    rec = recipes().get(case["mapper"])
    unknown = rec is None
    if unknown:
        # a mapper class this file has no recipe for (new in the tree): nothing is assumed about what it is meant to
        # reach or return; if it can be built without arguments the universal part of the property is still checked
        # (every per-node method at most once per node, no exponential re-traversal), otherwise it is only listed
        import pytato.transform as ptt_
        if not (isinstance(cls, type) and issubclass(cls, ptt_.CachedMapper)):
            return {"key": case, "nontrivial": False, "outcome": "mapper-without-recipe(listed)", "violations": [],
                    "counters": {"mapper_without_recipe": 1}, "states": nnodes, "transitions": nedges}
        rec = {"kind": "cached", "make": lambda C, g_: C(), "needs": (), "unknown": True}
    kind = rec["kind"]
    if kind in ("skip", "via-function"):
        return {"key": case, "nontrivial": False, "outcome": "mapper-" + kind, "violations": [],
                "states": nnodes, "transitions": nedges}
    if ("no-calls" in rec["needs"] and props["has_calls"]) or ("no-dist" in rec["needs"] and props["has_dist"]):
        return {"key": case, "nontrivial": False, "outcome": "mapper-not-applicable", "violations": [],
                "states": nnodes, "transitions": nedges}
    sub = counting_subclass(cls)
    counts, visited, total, limit = sub._vf
    limit[0] = BUDGET_FACTOR * max(nnodes, 10) if kind != "uncached" else 2_000_000
    try:
        m = rec["make"](sub, g)
    except Exception as e:  # noqa: BLE001
        if rec.get("unknown"):
            return {"key": case, "nontrivial": False, "outcome": "mapper-without-recipe(listed)", "violations": [],
                    "counters": {"mapper_without_recipe": 1}, "states": nnodes, "transitions": nedges}
        return {"key": case, "nontrivial": False, "outcome": "recipe-failed",
                "violations": [{"sig": {"kind": "recipe-failed", "mapper": case["mapper"]}, "msg": f"{where}: {type(e).__name__}: {e}"}]}
    snap = reflect.snapshot(g)
    if kind == "single-node":
        # not recursive by design: apply to every array node, each call sees one node
        for n in [x for x in top_scope if isinstance(x, pt.Array)]:
            try:
                m(n)
            except Exception:  # noqa: BLE001
                counters["single-node-refusals"] += 1
        return {"key": case, "nontrivial": True, "outcome": "single-node-applied", "violations": [],
                "states": nnodes, "transitions": nedges, "traces": 1, "counters": dict(counters)}
    try:
        res = rec["run"](m, g)
    except Budget as e:
        if kind in ("uncached", "uncached-bounded"):
            return {"key": case, "nontrivial": True, "outcome": "uncached-budget", "violations": [],
                    "states": nnodes, "transitions": nedges, "traces": 1}
        viol.append({"sig": {"kind": "exponential-retraversal", "mapper": case["mapper"]},
                     "msg": f"{where}: {e} for a graph of {nnodes} nodes (budget {limit[0]})"})
        return {"key": case, "nontrivial": True, "outcome": "violation", "violations": viol, "states": nnodes,
                "transitions": nedges, "traces": 1}
    except Exception as e:  # noqa: BLE001
        if has_dup and ("collision" in str(e) or "duplicate" in str(e)):
            return {"key": case, "nontrivial": True, "outcome": "collision-reported", "violations": [],
                    "states": nnodes, "transitions": nedges, "traces": 1}
        if isinstance(e, NotImplementedError) or type(e).__name__ == "UnsupportedArrayError":
            # a clean "this mapper does not support this node kind" diagnostic
            return {"key": case, "nontrivial": False, "outcome": "mapper-refused:" + type(e).__name__, "violations": [],
                    "states": nnodes, "transitions": nedges, "traces": 1}
        viol.append({"sig": {**progcheck.exc_sig("mapper-run", e), "mapper": case["mapper"]},
                     "msg": f"{where}: " + progcheck.exc_msg("mapper run", e)})
        return {"key": case, "nontrivial": True, "outcome": "violation", "violations": viol, "states": nnodes,
                "transitions": nedges, "traces": 1}
    if reflect.snapshot(g) != snap:
        viol.append({"sig": {"kind": "argument-mutated", "mapper": case["mapper"]}, "msg": where})
    if has_dup:
        # collision-checking mappers must have reported; the others (explicitly collision-tolerant) may pass
        m_cache = getattr(m, "_cache", None)
        from pytato.transform import CachedMapper
        expr_keyed = getattr(type(m), "get_cache_key", None) is getattr(CachedMapper, "get_cache_key", object())
        if getattr(m_cache, "err_on_collision", False) and expr_keyed:
            viol.append({"sig": {"kind": "collision-hidden", "mapper": case["mapper"]},
                         "msg": f"{where}: graph contains structurally equal distinct nodes, collision checking is on, "
                                f"yet the mapper returned normally"})
        return {"key": case, "nontrivial": True, "outcome": "dup-tolerated" if not viol else "violation",
                "violations": viol, "states": nnodes, "transitions": nedges, "traces": 1}
    # (1) once per distinct node
    if kind in ("cached", "transform"):
        multi = [(type(visited[i]).__name__, c) for i, c in counts.items() if c > 1]
        if multi:
            viol.append({"sig": {"kind": "visited-more-than-once", "mapper": case["mapper"],
                                 "node-kinds": sorted({k for k, _ in multi})[:4]},
                         "msg": f"{where}: per-node method invoked more than once for {len(multi)} node(s): {multi[:6]}"})
    # (2) reaches every array child in scope
    must = [n for n in top_scope if isinstance(n, pt.Array)]
    missed = [n for n in must if id(n) not in visited]
    if rec.get("unknown"):
        missed = []      # (what an unknown mapper is meant to reach is not known)
    if rec.get("ignores_shape_components"):
        # special-purpose collector over axes: scalar shape expressions have no axes to collect from
        only_via_shape = set()
        for n in missed:
            parents = [(p_, fld) for p_ in top_scope for (fld, path), ch in reflect.child_edges(p_) if ch is n]
            if all(fld == "shape" or id(p_) not in visited for p_, fld in parents):
                only_via_shape.add(id(n))
        missed = [n for n in missed if id(n) not in only_via_shape]
    if missed and kind != "uncached-bounded":
        kinds = sorted({type(n).__name__ for n in missed})
        # which edge kinds lead to the missed nodes?
        via = set()
        for p_ in top_scope:
            for (fld, path), ch in reflect.child_edges(p_):
                if any(ch is x for x in missed) and id(p_) in visited:
                    via.add(f"{type(p_).__name__}.{fld}")
        viol.append({"sig": {"kind": "child-not-reached", "mapper": case["mapper"], "via": sorted(via)[:6]},
                     "msg": f"{where}: {len(missed)} array node(s) reachable by the reflective walk were never visited "
                            f"(kinds {kinds}); edges from visited nodes: {sorted(via)}"})
    # (3) transformations
    if kind == "transform" and isinstance(res, pt.DictOfNamedArrays):
        if rec["identity"] and not (case["graph"].startswith("shared-buffers") and "DataWrapperDeduplicator" in case["mapper"]):
            if not (res is g or all(res._data[k] is g._data[k] for k in g)):
                viol.append({"sig": {"kind": "identity-transformation-rebuilds", "mapper": case["mapper"]},
                             "msg": f"{where}: nothing to change, but the result is not the argument itself"})
        if _distinct(res) > _distinct(g) and not rec.get("lowering"):
            viol.append({"sig": {"kind": "more-distinct-nodes", "mapper": case["mapper"]},
                         "msg": f"{where}: {_distinct(res)} > {_distinct(g)}"})
        if reflect.has_structural_duplicates(res):
            viol.append({"sig": {"kind": "result-has-duplicates", "mapper": case["mapper"]}, "msg": where})
    counters["invocations"] = total[0]
    return {"key": case, "nontrivial": True, "outcome": "ok" if not viol else "violation", "violations": viol[:5],
            "states": nnodes, "transitions": nedges, "traces": 1, "counters": dict(counters),
            "sample": {**case, "nodes": nnodes, "edges": nedges, "invocations": total[0], "visited": len(visited)}}


def _distinct(g):
    import pytato as pt
    n = 0
    for _o, nodes in reflect.scopes(g):
        n += len({x for x in nodes if isinstance(x, pt.Array)})
    return n


def vacuity(summary):
    if summary["outcomes"].get("ok", 0) < 200 or summary["outcomes"].get("collision-reported", 0) < 20:
        return f"too few decided (mapper, graph) pairs: {dict(summary['outcomes'])}"
    return None
