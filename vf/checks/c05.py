"""C05 — graph transformations preserve every output and never mutate their input.

Explicit-state search: a state is an expression graph (canonical key = its
object-graph serialisation incl. tags and sharing), transitions are the real
transformation functions; BFS over all pipelines up to a depth bound from every
initial graph, merging states with equal keys.
"""
from __future__ import annotations

import collections
import warnings

import numpy as np

from vf import progcheck, reflect, runner, space, values
from vf import terms as T

warnings.filterwarnings("ignore")

PROPERTY = "C05"
LEVEL = "model_checking"
TECHNIQUE = ("explicit-state breadth-first search over expression graphs: states = graphs keyed by a canonical "
             "object-graph serialisation (structure, tags, sharing), transitions = the real transformation functions "
             "(copy mapper, identity map_and_copy, deduplicate, deduplicate_data_wrappers, eliminate_dead_code, "
             "materialize_with_mpms, unify_axes_tags, code-generation preprocessing), all pipelines up to the depth "
             "bound from every initial graph of a bounded program space; invariants evaluated in every state")
RULE = ("initial states = representative C01 programs plus duplicated sub-expressions, dead zeros_like/ones_like "
        "references, multi-output dictionaries, aliased/strided data wrappers and pre-tagged nodes/axes; every "
        "transition runs the implementation; per state: output names, shapes, dtypes and reference-evaluator values "
        "on all valuations equal the initial state's; per transition: argument graph structurally unchanged, same "
        "node objects, wrapped data bytes/flags untouched; idempotence of deduplicate / eliminate_dead_code / "
        "materialize_with_mpms; tag-only effect of materialize_with_mpms / unify_axes_tags")
ASSUMPTIONS = [
    "vf/dageval.py + vf/scalar_interp.py as the reference evaluator of graphs (cross-checked against NumPy on the term)",
    "state merging on the canonical object-graph key is sound because the transformations are functions of structure, "
    "tags and sharing only (determinism self-check re-runs one case per shard)",
    "pipelines up to length 2 (quick) / 3-4 (thorough); valuation alphabet for values",
]
DETERMINISM_CHECK = True
MAXDEPTH = {"quick": 2, "thorough": 3}


def bounds(tier):
    return {"pipeline_depth": MAXDEPTH[tier], "transformations": len(TRANSFORMS)}


# ---------------------------------------------------------------------------
# transitions

class _Target:
    pass


def _t_copy(dag):
    import pytato.transform as ptt
    return ptt.CopyMapper()(dag)


def _t_map_and_copy(dag):
    import pytato.transform as ptt
    return ptt.map_and_copy(dag, lambda x: x)


def _t_dedup(dag):
    import pytato.transform as ptt
    return ptt.deduplicate(dag)


def _t_dedup_dw(dag):
    import pytato.transform as ptt
    return ptt.deduplicate_data_wrappers(dag)


def _t_dce(dag):
    import pytato as pt
    return pt.eliminate_dead_code(dag)


def _t_mpms(dag):
    import pytato as pt
    return pt.materialize_with_mpms(dag)


def _t_unify(dag):
    import pytato as pt
    return pt.unify_axes_tags(dag)


def _t_preprocess(dag):
    from pytato.codegen import preprocess
    from vf.cexec import VerifCTarget
    r = preprocess(dag, VerifCTarget())
    return r.outputs, dict(r.bound_arguments)


TRANSFORMS = collections.OrderedDict([
    ("copy", _t_copy), ("map_and_copy_id", _t_map_and_copy), ("deduplicate", _t_dedup),
    ("deduplicate_data_wrappers", _t_dedup_dw), ("eliminate_dead_code", _t_dce),
    ("materialize_with_mpms", _t_mpms), ("unify_axes_tags", _t_unify), ("preprocess", _t_preprocess),
])
IDEMPOTENT = ("deduplicate", "eliminate_dead_code", "materialize_with_mpms")
TAG_ONLY = ("materialize_with_mpms", "unify_axes_tags")


# ---------------------------------------------------------------------------
# initial states

def special_programs(tier):  # noqa: C901
    ph, dw = space.ph, space.dw
    x = ph("a", (2, 3), "float64")
    y = ph("b", (3,), "float64")
    z = ph("c", (2, 3), "int32")
    w = dw("w", (2, 3), "float64")
    sq = dw("q", (3, 3), "float64")
    v6 = dw("v", (6,), "float64")
    base = [
        ["bin", "add", x, y], ["red", "sum", ["bin", "mul", x, x], 1], ["matmul", x, ["transpose", x, [1, 0]]],
        ["index", ["bin", "add", x, w], [["s", None, None, -1], 1]], ["roll", ["bin", "mul", z, ["py", 2]], 1, 1],
        ["reshape", ["bin", "sub", x, w], [3, 2], "F"], ["where", ["cmp", "less", x, y], x, ["neg", x]],
        ["stack", 0, ["fn", "sin", x], ["fn", "cos", x]], ["concat", 1, x, ["bin", "mul", x, ["py", 2.0]]],
        ["einsum", "ij,j->i", ["bin", "add", x, w], y],
        ["index", x, [["a", ["dwv", "ia", "int32", [1, 0, -1]]], ["s", None, None, None]]],
        ["csrmm", [2, 3], ["dw", "cv", [3], "float64"], ["dwv", "cc", "int32", [0, 2, 1], [3]],
         ["dwv", "cr", "int32", [0, 2, 3], [3]], ["bin", "add", y, y]],
        ["pad", ["fn", "exp", y], 1, 0], ["broadcast_to", ["bin", "mul", y, y], [2, 3]],
        ["expand_dims", ["red", "amax", x, 0], 0], ["astype", z, "float64"],
    ]
    progs = []
    for t in base:
        inner = [s for s in T.subterms(t) if s[0] not in ("ph", "dw", "dwv", "py", "nps", "s", "a")]
        # duplicated sub-expressions (pre-deduplicate)
        progs.append(("dup-outputs", [["o1", t], ["o2", ["dup", 1, t]]]))
        progs.append(("dup-operand", [["out", ["bin", "add", t, ["dup", 1, t]]]]))
        if inner:
            progs.append(("dup-inner", [["out", ["bin", "sub", t, space.replace_leaf(t, T.tkey(inner[0]), ["dup", 2, inner[0]])]]]))
        # dead references
        progs.append(("dead-zeros_like", [["out", ["bin", "add", t, ["zeros_like", ["bin", "mul", t, ["py", 3.0]]]]]]))
        progs.append(("dead-ones_like", [["out", ["bin", "mul", ["ones_like", ["bin", "sub", t, ["py", 1.0]]], t]]]))
        progs.append(("dead-zeros_like-only", [["out", ["zeros_like", t]], ["keep", t]]))
        # multi-output dictionaries, aliases, input as output
        progs.append(("multi", [["r", t], ["s", ["bin", "mul", t, ["py", 2.0]]], ["x", x]]))
        progs.append(("alias", [["o1", t], ["o2", t]]))
        # multiple-predecessor / multiple-successor shapes for materialisation
        u = ["bin", "mul", t, t]
        progs.append(("mpms", [["out", ["bin", "add", ["bin", "add", u, ["fn", "sin", u]] if T.np_shape_dtype(t)[1].kind == "f"
                                       else ["bin", "add", u, ["neg", u]], ["bin", "mul", u, ["py", 2]]]]]))
        # pre-tagged nodes / axes
        for tg in (["stored"], ["user", "p"], ["named", "nm"], ["prefix", "pf"]):
            progs.append(("tag-root-" + tg[0], [["out", ["bin", "add", ["tag", tg, t], ["py", 1]]]]))
        nd = len(T.np_shape_dtype(t)[0])
        if nd:
            progs.append(("tag-axis", [["out", ["bin", "add", ["tag", ["axis", nd - 1, "ax"], t], ["tag", ["axis", 0, "bx"], ["neg", t]]]]]))
            progs.append(("tag-axis-out", [["o1", ["tag", ["axis", 0, "ax"], t]], ["o2", ["bin", "mul", t, ["py", 2]]]]))
        if inner:
            progs.append(("tag-inner", [["out", space.replace_leaf(t, T.tkey(inner[0]), ["tag", ["stored"], inner[0]])]]))
            progs.append(("tag-inner-user", [["out", space.replace_leaf(t, T.tkey(inner[0]), ["tag", ["user", "i"], inner[0]])]]))
    # data wrappers: same object twice, equal copies, aliasing views
    for mode in ("same", "view", "copy", "T", "rev"):
        progs.append(("dw-" + mode, [["o1", ["bin", "add", sq, ["dwalias", sq, mode]]],
                                     ["o2", ["bin", "sub", ["dwalias", sq, mode], ["py", 1.0]]]]))
    for mode in ("head3", "step2", "same", "copy"):
        progs.append(("dw-" + mode, [["o1", ["bin", "mul", ["dwalias", v6, "head3"], ["dwalias", v6, mode]]],
                                     ["o2", ["dwalias", v6, mode]]]))
    progs.append(("dw-many", [["out", ["bin", "add", ["bin", "add", w, ["dwalias", w, "copy"]],
                                        ["bin", "add", ["dwalias", w, "same"], ["dwalias", w, "view"]]]]]))
    # reductions with tagged descriptors, symbolic shape
    progs.append(("tag-redn", [["out", ["tag", ["redn", "r"], ["red", "sum", x, 1]]]]))
    progs.append(("sym", [["out", ["bin", "add", ph("s", ("n", 3), "float64"), y]]]))
    progs.append(("sym2", [["o1", ["red", "sum", ph("s", ("n", 3), "float64"), 1]],
                           ["o2", ["transpose", ph("s", ("n", 3), "float64"), [1, 0]]]]))
    return progs


def enumerate_cases(tier, seed):
    cases = []
    for fam, outs in special_programs(tier):
        cases.append({"fam": fam, "outs": outs})
    for fam, outs in space.sibling_pair_programs():
        cases.append({"fam": fam, "outs": outs})
    reps = space.representatives("quick")
    rl = []
    for sig in sorted(reps, key=repr):
        for f, t in reps[sig]:
            rl.append({"fam": "rep:" + f, "outs": [["out", t]]})
    l2 = [{"fam": "l2:" + f, "outs": [["out", t]]} for f, t in space.l2("quick")]
    # parameter-sensitive high-level nodes (C02's parameter spaces: 3-cycle permutations of non-cubic operands, F-order
    # reshapes, rolls, negative-step slices, advanced indices, einsum specs, CSR patterns): code-generation preprocessing
    # lowers them, and a lowering that is only right for symmetric parameters must not pass as value-preserving
    from vf.checks import c02
    hl, seen = [], set()
    for g, t in c02.gen_terms("quick"):
        k = T.tkey(t)
        if k not in seen and space.np_accepts(t) is not None:
            seen.add(k)
            hl.append({"fam": "hl:" + g, "outs": [["out", t]]})
    # fixed core: every axis permutation, and per node kind 30 parameter tuples spread evenly over its enumeration
    bykind = {}
    for c in hl:
        bykind.setdefault(c["fam"], []).append(c)
    core = list(bykind.get("hl:AxisPermutation", []))
    for fam_, lst in sorted(bykind.items()):
        if fam_ != "hl:AxisPermutation":
            step = max(1, len(lst) // 30)
            core += lst[::step][:30]
    chosen_ = {T.tkey(c["outs"]) for c in core}
    rest = [c for c in hl if T.tkey(c["outs"]) not in chosen_]
    if tier == "quick":
        rl = runner.slice_by_seed(rl, seed, 3)
        l2 = runner.slice_by_seed(l2, seed, 400)
        hl = core + runner.slice_by_seed(rest, seed, 300)
    else:
        l2 = runner.slice_by_seed(l2, seed, 12)
        hl = core + runner.slice_by_seed(rest, seed, 20)
    return cases + rl + l2 + hl


# ---------------------------------------------------------------------------

def sizes_for(outs):
    names = sorted({n for _, t in outs for n in T.size_params_of(t)})
    return {n: 2 + i for i, n in enumerate(names)} if names else None


class State:
    __slots__ = ("dag", "bound", "key", "path")

    def __init__(self, dag, bound, path):
        self.dag, self.bound, self.path = dag, bound, path
        self.key = reflect.key(dag) + "|" + ",".join(sorted(bound))


def evaluate(state, inputs_by_val, sizes):
    from vf import dageval
    res = {}
    for val, inputs in inputs_by_val.items():
        inp = dict(inputs)
        inp.update(state.bound)
        ev = dageval.DagEval(inp, sizes)
        res[val] = {n: np.asarray(ev(state.dag._data[n])) for n in state.dag}
    return res


def run_case(case):  # noqa: C901
    import pytato as pt
    outs = case["outs"]
    tier_depth = MAXDEPTH.get(case.get("tier", None) or __import__("os").environ.get("VERIF_TIER", "quick"), 2)
    viol = []
    for _, t in outs:
        if progcheck.fragment_exclusion(t):
            return {"key": outs, "nontrivial": False, "outcome": "excluded", "violations": []}
    try:
        b, arrays = progcheck.build_outputs(outs)
        dag0 = pt.make_dict_of_named_arrays(arrays)
    except (NotImplementedError, ValueError, TypeError, IndexError) as e:
        return {"key": outs, "nontrivial": False, "outcome": "rejected:" + type(e).__name__, "violations": []}
    except Exception as e:  # noqa: BLE001
        return {"key": outs, "nontrivial": False, "outcome": "construct-exception",
                "violations": []}   # C01's business
    sizes = sizes_for(outs)
    inputs_by_val = {}
    refs = {}
    for val in values.VALUATIONS:
        try:
            inputs, ref, ev = progcheck.reference(outs, val, sizes)
        except Exception:  # noqa: BLE001
            return {"key": outs, "nontrivial": False, "outcome": "numpy-rejects", "violations": []}
        if ev.excluded:
            continue
        inputs_by_val[val] = inputs
        refs[val] = (ref, ev)
    if not inputs_by_val:
        return {"key": outs, "nontrivial": False, "outcome": "all-valuations-excluded", "violations": []}
    init = State(dag0, {}, ())
    try:
        base_vals = evaluate(init, inputs_by_val, sizes)
    except Exception as e:  # noqa: BLE001
        return {"key": outs, "nontrivial": False, "outcome": "reference-eval-fails:" + type(e).__name__,
                "violations": [], "counters": {"reference_eval_failures": 1}}
    counters = collections.Counter()
    # conformance of the two references on the initial state (counted, triaged elsewhere)
    for val, (ref, ev) in refs.items():
        for n in ref:
            if values.compare(base_vals[val][n], ref[n], scale=ev.scale, nred=ev.nred, check_dtype=False,
                              min_eps=ev.eps) is not None:
                counters["dageval_vs_numpy_disagreements(C01/C03 matters)"] += 1
    names0 = list(dag0)
    meta0 = {n: (dag0[n].shape, dag0[n].dtype) for n in names0}
    seen = {init.key: init}
    frontier = [init]
    nstates, ntrans = 1, 0
    depth = 0
    while frontier and depth < tier_depth:
        depth += 1
        nxt = []
        for st in frontier:
            for tname, tf in TRANSFORMS.items():
                if tname == "preprocess" and "preprocess" in st.path:
                    continue
                snap = reflect.snapshot(st.dag)
                try:
                    r = tf(st.dag)
                except Exception as e:  # noqa: BLE001
                    ntrans += 1
                    if ((type(e).__name__ == "CacheCollisionError" or "cache collision detected" in str(e))
                            and reflect.has_structural_duplicates(st.dag)):
                        # documented behaviour: a graph with structurally equal but distinct
                        # nodes must be deduplicated first; the collision is *reported*
                        counters["collision_reported_on_duplicate_graph"] += 1
                        continue
                    viol.append({"sig": {**progcheck.exc_sig(tname, e)},
                                 "msg": f"pipeline {list(st.path) + [tname]} on {outs}: "
                                        + progcheck.exc_msg(tname, e)})
                    continue
                ntrans += 1
                new_bound = dict(st.bound)
                if isinstance(r, tuple):
                    r, bnd = r
                    new_bound.update(bnd)
                path = (*st.path, tname)
                where = f"pipeline {list(path)} on program {outs}"
                # (3) argument graph untouched
                snap2 = reflect.snapshot(st.dag)
                if snap2 != snap:
                    what = ("structure" if snap2[0] != snap[0] else "node-identity" if snap2[1] != snap[1]
                            else "wrapped-data")
                    viol.append({"sig": {"kind": "input-mutated", "transform": tname, "what": what},
                                 "msg": f"{where}: the graph passed to {tname} changed ({what})"})
                if not isinstance(r, pt.DictOfNamedArrays):
                    viol.append({"sig": {"kind": "result-type", "transform": tname},
                                 "msg": f"{where}: returned {type(r).__name__}"})
                    continue
                ns = State(r, new_bound, path)
                # (1) names, shapes, dtypes
                if list(r) != names0 and sorted(r) != sorted(names0):
                    viol.append({"sig": {"kind": "output-names", "transform": tname},
                                 "msg": f"{where}: outputs {list(r)} != {names0}"})
                    continue
                bad_meta = False
                for n in names0:
                    try:
                        shp_eq = _shape_eq(r[n].shape, meta0[n][0], sizes)
                    except Exception:  # noqa: BLE001
                        shp_eq = False
                    if not shp_eq or r[n].dtype != meta0[n][1]:
                        viol.append({"sig": {"kind": "output-meta", "transform": tname},
                                     "msg": f"{where}: output {n} is {r[n].shape}/{r[n].dtype}, was {meta0[n]}"})
                        bad_meta = True
                if bad_meta:
                    continue
                # (4) idempotence, (5) tag-only
                if tname in IDEMPOTENT:
                    try:
                        r2 = tf(r)
                        if reflect.key(r2) != reflect.key(r):
                            viol.append({"sig": {"kind": "not-idempotent", "transform": tname},
                                         "msg": f"{where}: applying {tname} again changes the graph"})
                    except Exception as e:  # noqa: BLE001
                        viol.append({"sig": {**progcheck.exc_sig(tname + "-twice", e)},
                                     "msg": f"{where}: second application raised " + progcheck.exc_msg(tname, e)})
                    counters["idempotence_checks"] += 1
                if tname in TAG_ONLY:
                    if reflect.key(r, tags=False, sharing=False) != reflect.key(st.dag, tags=False, sharing=False):
                        viol.append({"sig": {"kind": "changes-more-than-tags", "transform": tname},
                                     "msg": f"{where}: {tname} changed the graph beyond tags"})
                    counters["tag_only_checks"] += 1
                if ns.key in seen:
                    continue
                # (2) values
                try:
                    vals = evaluate(ns, inputs_by_val, sizes)
                except Exception as e:  # noqa: BLE001
                    viol.append({"sig": {"kind": "transformed-graph-unevaluable", "transform": tname,
                                         "error": type(e).__name__},
                                 "msg": f"{where}: reference evaluation of the result failed: {type(e).__name__}: {e}"})
                    seen[ns.key] = ns
                    continue
                ok = True
                for val in vals:
                    ev = refs[val][1]
                    for n in names0:
                        bad = values.compare(vals[val][n], base_vals[val][n], scale=ev.scale, nred=ev.nred,
                                             min_eps=ev.eps)
                        if bad:
                            ok = False
                            viol.append({"sig": {"kind": "value-changed", "transform": tname},
                                         "msg": f"{where}: output {n} valuation {val}: {bad}"})
                            break
                    if not ok:
                        break
                seen[ns.key] = ns
                nstates += 1
                nxt.append(ns)
        frontier = nxt
    return {"key": outs, "nontrivial": nstates > 1, "outcome": "explored" if not viol else "violation",
            "violations": viol[:6], "states": nstates, "transitions": ntrans, "traces": ntrans,
            "counters": dict(counters),
            "sample": {"program": outs, "states": nstates, "transitions": ntrans,
                       "example_pipeline": list(frontier[0].path) if frontier else None}}


def _shape_eq(s1, s2, sizes):
    from vf import dageval
    if len(s1) != len(s2):
        return False
    ev = dageval.DagEval({}, sizes)
    return all(ev.dim(a) == ev.dim(b) for a, b in zip(s1, s2))


def vacuity(summary):
    if summary["states"] < 3 * summary["evaluations"] * 0.3:
        return f"state graphs collapsed: {summary['states']} states for {summary['evaluations']} programs"
    return None
