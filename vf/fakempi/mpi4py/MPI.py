"""Replay-style simulated MPI.

A rank is *re-executed from scratch* with scripts of environment answers (collective results,
Waitsome results).  When the script is exhausted the call raises NeedCollective / Blocked carrying
what the rank is asking for; the explorer decides the answer, extends the script and re-runs.
A rank's behaviour is a deterministic function of the answers it got, so the script *is* its state.
"""
from __future__ import annotations

import numpy as np


class NeedCollective(BaseException):
    def __init__(self, kind, payload, info):
        super().__init__(kind)
        self.kind, self.payload, self.info = kind, payload, info


class Blocked(BaseException):
    """rank blocks in Waitsome: .pending = [(src, tag)] of incomplete receive requests"""

    def __init__(self, pending):
        super().__init__("blocked")
        self.pending = pending


class Livelock(BaseException):
    pass


class Datatype:
    pass


class Op:
    def __init__(self, fn, commute):
        self.fn, self.commute, self.freed = fn, commute, False

    @classmethod
    def Create(cls, fn, commute=False):  # noqa: N802
        return cls(fn, commute)

    def Free(self):  # noqa: N802
        self.freed = True


class Request:
    def __init__(self, comm, kind, peer, tag, buf):
        self.comm, self.kind, self.peer, self.tag, self.buf = comm, kind, peer, tag, buf
        self.complete = False

    def Wait(self):  # noqa: N802
        self.comm.waited.append((self.kind, self.peer, self.tag))
        return None

    @staticmethod
    def Waitsome(requests):  # noqa: N802
        if not requests:
            # MPI: an empty list yields MPI_UNDEFINED -> None
            Request._empty_calls = getattr(Request, "_empty_calls", 0) + 1
            if Request._empty_calls > 3:
                Request._empty_calls = 0
                raise Livelock("Waitsome called repeatedly with no pending request and no ready part")
            return None
        Request._empty_calls = 0
        comm = requests[0].comm
        return comm._waitsome(requests)


class Comm:
    def __init__(self, rank, size, coll_script=(), wait_script=()):
        self.rank, self.size = rank, size
        self.coll_script = list(coll_script)
        self.wait_script = list(wait_script)   # [ {(src, tag): ndarray} ]
        self.ncoll = 0
        self.nwait = 0
        self.sends = []        # [(dest, tag, ndarray copy)] in program order
        self.posted = []       # [(src, tag)] receives posted
        self.waited = []
        self.log = []

    # --- collectives
    def _coll(self, kind, payload, **info):
        i = self.ncoll
        self.ncoll += 1
        if i < len(self.coll_script):
            k, res = self.coll_script[i]
            if k != kind:
                raise RuntimeError(f"replay divergence: collective #{i} was {k}, now {kind}")
            return res
        raise NeedCollective(kind, payload, info)

    def allreduce(self, sendobj, op=None):
        return self._coll("allreduce", sendobj, op=op)

    def bcast(self, obj=None, root=0):
        return self._coll("bcast", obj, root=root)

    def gather(self, sendobj, root=0):
        return self._coll("gather", sendobj, root=root)

    def barrier(self):
        return self._coll("barrier", None)

    Barrier = barrier

    # --- point to point
    def Irecv(self, buf, source, tag):  # noqa: N802
        self.posted.append((source, tag))
        return Request(self, "recv", source, tag, buf)

    def Isend(self, data, dest, tag):  # noqa: N802
        self.sends.append((dest, tag, np.array(data, copy=True)))
        return Request(self, "send", dest, tag, None)

    def _waitsome(self, requests):
        i = self.nwait
        if i < len(self.wait_script):
            self.nwait += 1
            answer = self.wait_script[i]
            idxs = []
            for j, rq in enumerate(requests):
                key = (rq.peer, rq.tag)
                if rq.kind == "recv" and not rq.complete and key in answer:
                    data = answer[key]
                    if data.shape != rq.buf.shape or data.dtype != rq.buf.dtype:
                        raise RuntimeError(f"message {key}: {data.shape}/{data.dtype} does not fit the posted buffer "
                                           f"{rq.buf.shape}/{rq.buf.dtype}")
                    rq.buf[...] = data
                    rq.complete = True
                    idxs.append(j)
            if len(idxs) != len(answer):
                raise RuntimeError(f"replay divergence: Waitsome #{i} answer {sorted(answer)} does not match the pending requests")
            return idxs
        raise Blocked([(rq.peer, rq.tag) for rq in requests if rq.kind == "recv" and not rq.complete])


COMM_WORLD = None
