"""Simulated mpi4py for the model checker (see vf/distrun.py).  Only what pytato's distributed
code uses: comm.rank/size/allreduce/bcast/gather/barrier/Irecv/Isend, MPI.Op.Create/Free,
MPI.Request.Waitsome, request.Wait()."""
from . import MPI  # noqa: F401
