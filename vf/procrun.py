"""child-interpreter helpers (PYTHONHASHSEED x allocation history)"""
from __future__ import annotations

import json
import os
import pickle
import struct
import subprocess
import sys

from vf import VERIF_DIR, REPO


def child_env(seed):
    env = dict(os.environ)
    env.update({"PYTHONHASHSEED": str(seed), "PYTHONDONTWRITEBYTECODE": "1", "VERIF_REPO": REPO,
                "PYTHONPATH": VERIF_DIR + os.pathsep + env.get("PYTHONPATH", ""), "LOOPY_NO_CACHE": "1"})
    return env


def run_json(args, seed, timeout=600, stdin=None):
    r = subprocess.run([sys.executable, *args], env=child_env(seed), cwd=VERIF_DIR, capture_output=True,
                       text=True, timeout=timeout, input=stdin)
    if r.returncode != 0:
        raise RuntimeError(f"child {args} (seed {seed}) failed rc={r.returncode}:\n{r.stderr[-2000:]}")
    line = [l for l in r.stdout.splitlines() if l.startswith("{")][-1]
    return json.loads(line)


class EchoChild:
    """persistent child (own hash seed) that unpickles, hashes and re-pickles what it is sent"""

    def __init__(self, seed):
        self.seed = seed
        self.p = subprocess.Popen([sys.executable, "-m", "vf.poolchild", "serve"], env=child_env(seed), cwd=VERIF_DIR,
                                  stdin=subprocess.PIPE, stdout=subprocess.PIPE, stderr=subprocess.DEVNULL)

    def roundtrip(self, obj):
        data = pickle.dumps(obj)
        self.p.stdin.write(struct.pack("<Q", len(data)))
        self.p.stdin.write(data)
        self.p.stdin.flush()
        hdr = self.p.stdout.read(8)
        if len(hdr) < 8:
            raise RuntimeError("echo child died")
        n = struct.unpack("<Q", hdr)[0]
        back, h = pickle.loads(self.p.stdout.read(n))
        return back, h, data

    def close(self):
        try:
            self.p.stdin.close()
            self.p.wait(timeout=10)
        except Exception:  # noqa: BLE001
            self.p.kill()
