"""Pool of node instances of every kind, single-field mutations and nesting contexts
(C04 equality/hash congruence, C18 persistent keys).

Everything is discovered reflectively (dataclasses.fields), so a new node kind
or a new field is picked up automatically; the type-directed mutation table
raises on a field value it does not know how to change (listed, not skipped).
"""
from __future__ import annotations

import dataclasses
from collections.abc import Mapping

import numpy as np

from vf import reflect


def base_nodes():
    """[(label, node)] : every node of the every-edge-kind graph (all kinds), deterministic order.
    Data wrappers are excluded from rebuilt/equality claims (identity semantics) but stay as operands."""
    from vf import dagfam
    g = dagfam.every_edge_kind(False, True)
    nodes = reflect.walk(g)
    res = []
    count = {}
    for n in nodes:
        k = type(n).__name__
        count[k] = count.get(k, 0) + 1
        if count[k] <= 3:
            res.append((f"{k}#{count[k]}", n))
    return g, res


class CannotMutate(Exception):
    pass


def _other_array_like(a):
    """an array of the same shape/dtype that is structurally different"""
    import pytato as pt
    try:
        shape = a.shape
        if all(isinstance(d, int) for d in shape):
            return pt.make_placeholder("zz_other", shape, a.dtype)
    except Exception:  # noqa: BLE001
        pass
    return a + 0 if a.dtype.kind != "b" else pt.logical_not(a)


def alternatives(node, fname, val):  # noqa: C901
    """[(description, new value, equal_expected)] for one field"""
    import pymbolic.primitives as p
    import pytato as pt
    from pytato.array import NormalizedSlice
    from pytato.function import FunctionDefinition, ReturnType
    from pytools.tag import Tag
    from vf import tagdefs
    out = []
    if fname == "non_equality_tags":
        return [("non-equality tag added", frozenset(val) | {tagdefs.UserArrayTag("neq")}, True)]
    if isinstance(val, bool):
        return [("flipped", not val, False)]
    if isinstance(val, (int, np.integer)):
        return [("int+1", int(val) + 1, False), ("int-1", int(val) - 1, False)]
    if isinstance(val, str):
        if fname == "order":
            return [("order", "F" if val == "C" else "C", False)]
        return [("renamed", val + "_x", False)]
    if isinstance(val, np.dtype):
        return [("dtype", np.dtype(np.float32) if val != np.float32 else np.dtype(np.float64), False)]
    if isinstance(val, ReturnType):
        alts = [r for r in ReturnType if r != val]
        return [("return-type", alts[0], False)]
    if isinstance(val, np.ndarray):
        ch = val.copy()
        ch.flat[0] = ch.flat[0] + 1
        return [("other-buffer", val.copy(), False), ("element-changed", ch, False)]
    if isinstance(val, (pt.Array,)):
        return [("other-array", _other_array_like(val), False)]
    if isinstance(val, FunctionDefinition):
        nr = dict(val.returns)
        k0 = sorted(nr)[0]
        nr[k0] = nr[k0] + 1
        from constantdict import constantdict
        return [("other-function", dataclasses.replace(val, returns=constantdict(nr)), False)]
    if isinstance(val, pt.AbstractResultWithNamedArrays):
        # container of a named result: another container with a changed binding
        try:
            fld = "bindings"
            b = dict(getattr(val, fld))
            k0 = sorted(b)[0]
            if isinstance(b[k0], pt.Array):
                b[k0] = _other_array_like(b[k0])
                from constantdict import constantdict
                return [("other-container", dataclasses.replace(val, **{fld: constantdict(b)}), False)]
        except Exception:  # noqa: BLE001
            pass
        raise CannotMutate(f"container {type(val).__name__}")
    if isinstance(val, pt.DistributedSend):
        return [("other-send-tag", dataclasses.replace(val, comm_tag=val.comm_tag + 100), False),
                ("other-send-rank", dataclasses.replace(val, dest_rank=val.dest_rank + 1), False),
                ("other-send-data", dataclasses.replace(val, data=_other_array_like(val.data)), False)]
    if type(val).__name__ == "CSRMatrix":
        return [("csr-other-values", dataclasses.replace(val, elem_values=_other_array_like(val.elem_values)), False),
                ("csr-other-cols", dataclasses.replace(val, elem_col_indices=val.elem_col_indices + 0), False),
                ("csr-other-rowstarts", dataclasses.replace(val, row_starts=val.row_starts + 0), False),
                ("csr-other-shape", dataclasses.replace(val, shape=(val.shape[0], val.shape[1] + 1)), False),
                ("csr-tagged", val.tagged(tagdefs.UserArrayTag("m")), False)]
    if isinstance(val, frozenset):
        if fname == "tags" or all(isinstance(t, Tag) for t in val):
            return [("tag-added", frozenset(val) | {tagdefs.UserArrayTag("added")}, False)]
        if all(isinstance(t, str) for t in val):
            return [("name-added", frozenset(val) | {"extra_param"}, False)]
        raise CannotMutate(f"frozenset of {set(type(t).__name__ for t in val)}")
    if isinstance(val, NormalizedSlice):
        return [("slice-start", dataclasses.replace(val, start=val.start + 1 if isinstance(val.start, int) else val.start + 1), False)]
    if type(val).__name__ in ("EinsumElementwiseAxis", "EinsumReductionAxis"):
        from pytato.array import EinsumElementwiseAxis, EinsumReductionAxis
        other = EinsumReductionAxis if isinstance(val, EinsumElementwiseAxis) else EinsumElementwiseAxis
        return [("descr-dim+1", type(val)(val.dim + 1), False), ("descr-kind", other(val.dim), False)]
    if isinstance(val, (pt.Axis, pt.ReductionDescriptor)):
        return [("descr-tagged", val.tagged(tagdefs.UserAxisTag("mut")), False)]
    if isinstance(val, tuple):
        if not val:
            return []
        for i, x in enumerate(val):
            try:
                alts = alternatives(node, fname + f"[{i}]", x)
            except CannotMutate:
                continue
            for d, nv, eq in alts[:2]:
                out.append((f"[{i}] {d}", (*val[:i], nv, *val[i + 1:]), eq))
            if len(out) >= 4:
                break
        if len(val) >= 2 and val[0] != val[-1] and all(isinstance(x, (int, np.integer)) for x in val):
            out.append(("reversed", tuple(reversed(val)), False))
        if not out:
            raise CannotMutate(f"tuple of {set(type(x).__name__ for x in val)}")
        return out
    if isinstance(val, Mapping):
        from constantdict import constantdict
        keys = list(val)
        if not keys:
            return []
        res = []
        k0 = sorted(keys, key=repr)[0]
        try:
            for d, nv, eq in alternatives(node, fname + f"[{k0!r}]", val[k0])[:2]:
                nd = dict(val)
                nd[k0] = nv
                res.append((f"[{k0!r}] {d}", constantdict(nd), eq))
        except CannotMutate:
            pass
        if len(keys) >= 2:
            res.append(("same mapping, other insertion order", constantdict({k: val[k] for k in reversed(keys)}), True))
            klast = sorted(keys, key=repr)[-1]
            res.append((f"entry {klast!r} removed", constantdict({k: val[k] for k in keys if k != klast}), False))
        if all(isinstance(k, str) for k in keys):
            nd = dict(val)
            nd["zz_added_entry"] = val[k0]
            res.append(("entry added", constantdict(nd), False))
        if not res:
            raise CannotMutate(f"mapping with values {set(type(v).__name__ for v in val.values())}")
        return res
    if isinstance(val, p.ExpressionNode) or isinstance(val, (float, complex, np.generic)):
        return [("expr+1", val + 1, False)]
    if val is None:
        return []
    try:
        import loopy as lp
        if isinstance(val, lp.TranslationUnit):
            from vf import lpkernels
            other = lpkernels.kernel("axpy2" if "double" in str(val.default_entrypoint.name if val.entrypoints else "") else "double")
            return [("other-kernel", other, False)]
    except Exception:  # noqa: BLE001
        pass
    raise CannotMutate(f"{type(val).__name__}")


def _replace(node, fname, nv):
    import pytato as pt
    if isinstance(node, pt.DictOfNamedArrays):
        data = nv if fname == "_data" else node._data
        tags = nv if fname == "tags" else node.tags
        return pt.DictOfNamedArrays(dict(data), tags=tags)
    return dataclasses.replace(node, **{fname: nv})


# fields that cannot differ between two objects obtained through the API (with the reason)
NOT_API_REACHABLE = {
    ("NamedCallResult", "tags"): "tagging a NamedCallResult is illegal (raises ValueError): always the default",
    ("NamedCallResult", "axes"): "tagging a NamedCallResult's axis is illegal: always the default",
    ("DataWrapper", "non_equality_tags"): "data wrappers have identity semantics: any copy is a different wrapper",
}


def mutants(node):
    """[(field, description, mutated node, equal_expected)] ; unmutable fields -> (field, reason) in second list"""
    res, cannot = [], []
    for f in dataclasses.fields(node):
        if (type(node).__name__, f.name) in NOT_API_REACHABLE:
            continue
        val = getattr(node, f.name)
        try:
            alts = alternatives(node, f.name, val)
        except CannotMutate as e:
            cannot.append((f.name, str(e)))
            continue
        for d, nv, eq in alts:
            try:
                m = _replace(node, f.name, nv)
            except Exception as e:  # noqa: BLE001
                cannot.append((f.name, f"{d}: replace failed {type(e).__name__}: {str(e)[:80]}"))
                continue
            res.append((f.name, d, m, eq))
    return res, cannot


def rebuilt(node):
    """an independently rebuilt, structurally identical copy: every node object re-created bottom-up
    through dataclasses.replace (data wrappers are kept: identity semantics)"""
    import pytato as pt
    memo = {}

    def rb(x):
        if reflect.is_node(x):
            if id(x) in memo:
                return memo[id(x)]
            if isinstance(x, pt.DataWrapper):
                memo[id(x)] = x
                return x
            changes = {}
            for f in dataclasses.fields(x):
                v = getattr(x, f.name)
                nv = rbv(v)
                changes[f.name] = nv
            if isinstance(x, pt.DictOfNamedArrays):
                r = pt.DictOfNamedArrays(dict(changes["_data"]), tags=changes["tags"])
            else:
                r = dataclasses.replace(x, **changes)
            memo[id(x)] = r
            return r
        return x

    def rbv(v):
        from constantdict import constantdict
        from pytato.array import NormalizedSlice
        if reflect.is_node(v):
            return rb(v)
        if isinstance(v, tuple):
            return tuple(rbv(x) for x in v)
        if isinstance(v, Mapping):
            return constantdict({k: rbv(x) for k, x in v.items()})
        if isinstance(v, NormalizedSlice):
            return NormalizedSlice(rbv(v.start), rbv(v.stop), rbv(v.step))
        return v
    return rb(node)


def contexts():
    """single-hole contexts over the kinds that can hold an array child: [(name, fn(array)->node)]"""
    import pytato as pt
    C = []
    C.append(("binding", lambda a: a + 1 if a.dtype.kind != "b" else pt.logical_not(a)))
    C.append(("stack", lambda a: pt.stack([a, a])))
    C.append(("reshape", lambda a: a.reshape(-1) if all(isinstance(d, int) for d in a.shape) and a.ndim else a + 0))
    C.append(("dict-entry", lambda a: pt.make_dict_of_named_arrays({"k": a})))
    C.append(("send-payload", lambda a: pt.make_distributed_send_ref_holder(pt.make_distributed_send(a, 1, 7), pt.zeros(()))))
    C.append(("send-passthrough", lambda a: pt.make_distributed_send_ref_holder(pt.make_distributed_send(pt.zeros(()), 1, 7), a)))
    C.append(("call-binding", lambda a: pt.trace_call(lambda u: u * 2, a) if a.dtype.kind != "b" else a + 0))
    C.append(("index-array", lambda a: pt.make_placeholder("tbl", (9,), np.float64)[a] if a.dtype.kind in "iu" else a + 0))
    C.append(("basic-index", lambda a: a[...] if a.ndim == 0 else a[::1][0:]))
    return C
