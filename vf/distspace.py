"""Enumerator of multi-rank communication programs and faults (C08, C09, C10).

A program is {"R": ranks, "ops": [...], "ranks": {r: {"outs": [[name, term], ...]}}} where terms use
the distributed heads ["recv", src, tag, shape, dtype] / ["send", data, dest, tag, stapled_to].
The *skeleton* (ops, payload dependencies, output dependencies) is enumerated exhaustively in the
stated bounds; terms are derived from the skeleton deterministically.
"""
from __future__ import annotations

import hashlib
import itertools

SHAPE = [4]
DT = "float64"


def inp(r):
    return ["ph", "x", SHAPE, DT, f"rank{r}"]


def recv_term(op):
    return ["recv", op["src"], op["tag"], SHAPE, DT]


def combine(parts, salt):
    """deterministic function of the chosen values: sum_k (k+2)*v_k + salt (salt keeps payloads distinct)"""
    t = None
    for k, v in enumerate(parts):
        term = ["bin", "mul", v, ["py", float(k + 2)]]
        t = term if t is None else ["bin", "add", t, term]
    return ["bin", "add", t, ["py", float(salt)]]


def payload_term(prog_ops, i):
    op = prog_ops[i]
    parts = []
    if op["use_input"]:
        parts.append(inp(op["src"]))
    for j in op["deps"]:
        parts.append(recv_term(prog_ops[j]))
    if op.get("forward") and len(parts) == 1:
        return parts[0]            # payload is the received value / the input unchanged
    return combine(parts, 10 * (i + 1))


def build_program(R, ops, outs, stored=None, mode="plain"):
    """ops: [{src,dst,tag,deps:[op indices with dst==src],use_input,forward?}]
    outs: {rank: {"deps": [op indices received on rank], "use_input": bool, "kind": "combine"|"passthrough"}}"""
    ranks = {}
    for r in range(R):
        o = outs[r]
        parts = []
        if o["use_input"]:
            parts.append(inp(r))
        for j in o["deps"]:
            parts.append(recv_term(ops[j]))
        if o.get("kind") == "passthrough" and len(parts) == 1:
            out = parts[0]
        elif parts:
            out = combine(parts, 1000 * (r + 1))
        else:
            out = ["bin", "mul", inp(r), ["py", 0.5]]
        # staple this rank's sends onto the output: mode "plain" in op order around the output (the sends are traversed
        # before the output's receives), "rev" in reverse op order, "rf" (receives first) around the input and added,
        # times zero, to the output -- so the output's receives are traversed before the sends
        res = inp(r) if mode == "rf" else out
        nsends = 0
        for i, op in (reversed(list(enumerate(ops))) if mode == "rev" else enumerate(ops)):
            if op["src"] == r:
                pl = payload_term(ops, i)
                if stored and stored.get("op") == i:
                    pl = ["tag", ["stored"], pl]
                res = ["send", pl, op["dst"], op["tag"], res]
                nsends += 1
        if mode == "rf":
            res = ["bin", "add", out, ["bin", "mul", res, ["py", 0.0]]] if nsends else out
        if stored and stored.get("out") == r:
            res = ["bin", "add", ["tag", ["stored"], ["bin", "mul", res, ["py", 1.0]]], ["py", 0.0]]
        outsl = [["out", res]]
        if o.get("second_output"):
            # a second output that depends on a receive which the first output does not use / on the input
            outsl.append(["aux", ["bin", "mul", inp(r), ["py", 3.0]]])
        ranks[r] = {"outs": outsl}
    return {"R": R, "ops": ops, "ranks": ranks, "mode": mode}


def skeletons(R, M, tier="quick"):
    """all op lists with M operations on R ranks: endpoints, payload dependencies on lower-numbered ops
    received on the source rank, whether the local input is used; acyclic by construction"""
    pairs = [(s, d) for s in range(R) for d in range(R) if s != d]
    for endpoints in itertools.product(pairs, repeat=M):
        # canonical: op list sorted by nothing -- but drop permutations of independent identical op sets later
        def rec(i, ops):
            if i == M:
                yield [dict(o) for o in ops]
                return
            s, d = endpoints[i]
            avail = [j for j in range(i) if ops[j]["dst"] == s]
            for k in range(len(avail) + 1):
                for deps in itertools.combinations(avail, k):
                    for use_input in ((True,) if not deps else (True, False)):
                        fw = [False]
                        if len(deps) + int(use_input) == 1:
                            fw = [False, True]
                        for f in fw:
                            yield from rec(i + 1, ops + [{"src": s, "dst": d, "tag": 100 + i, "deps": list(deps),
                                                          "use_input": use_input, "forward": f}])
        yield from rec(0, [])


def output_choices(R, ops, tier):
    """per rank: which received values the output uses (every subset), whether it uses the input"""
    per_rank = []
    for r in range(R):
        recvd = [i for i, o in enumerate(ops) if o["dst"] == r]
        ch = []
        for k in range(len(recvd) + 1):
            for deps in itertools.combinations(recvd, k):
                for use_input in (True, False):
                    if not deps and not use_input:
                        continue
                    ch.append({"deps": list(deps), "use_input": use_input, "kind": "combine"})
                    if len(deps) + int(use_input) == 1:
                        ch.append({"deps": list(deps), "use_input": use_input, "kind": "passthrough"})
        per_rank.append(ch)
    return per_rank


def canonical_key(R, ops, outs):
    return repr((R, [(o["src"], o["dst"], tuple(o["deps"]), o["use_input"], o.get("forward")) for o in ops],
                 [(tuple(outs[r]["deps"]), outs[r]["use_input"], outs[r]["kind"]) for r in range(R)]))


def programs(tier="quick", seed=0):
    """[(family, program)] -- quick: R<=2 with M<=3, R=3 with M<=2 (outputs: a representative set per skeleton);
    thorough: R<=3 with M<=4 and structured R=4 families"""
    res = []
    bounds_ = [(1, 0), (2, 1), (2, 2), (2, 3), (3, 1), (3, 2)] if tier == "quick" else \
        [(1, 0), (2, 1), (2, 2), (2, 3), (2, 4), (3, 1), (3, 2), (3, 3)]
    for R, M in bounds_:
        for ops in skeletons(R, M, tier):
            per_rank = output_choices(R, ops, tier)
            # outputs: every rank uses everything it received (+input) | only the input | every single choice on
            # one rank with the others at "everything"
            full = [ch[-2] if ch[-1]["kind"] == "passthrough" and len(ch) > 1 else ch[-1] for ch in per_rank]
            full = []
            for r, ch in enumerate(per_rank):
                recvd = [i for i, o in enumerate(ops) if o["dst"] == r]
                full.append({"deps": recvd, "use_input": True, "kind": "combine"})
            variants = [full]
            for r in range(R):
                for c in per_rank[r]:
                    v = list(full)
                    v[r] = c
                    variants.append(v)
            seen = set()
            for outs in variants:
                k = canonical_key(R, ops, outs)
                if k in seen:
                    continue
                seen.add(k)
                # every sent value must be received AND every receive appears in the program (used by an output or
                # a payload): a receive nobody uses does not exist in the DAG
                used = set()
                for o in ops:
                    used |= set(o["deps"])
                for r in range(R):
                    used |= set(outs[r]["deps"])
                if used != set(range(len(ops))):
                    continue
                res.append((f"R{R}M{M}", build_program(R, ops, {r: outs[r] for r in range(R)})))
                # the other two traversal orders of the same computation: a seed-chosen slice
                if M >= 2:
                    h = int(hashlib.md5(k.encode()).hexdigest()[:8], 16)
                    nsl = 10 if tier == "quick" else (5 if M <= 3 and not (R == 3 and M == 3) else 40)
                    if h % nsl == seed % nsl:
                        for mode in ("rev", "rf"):
                            res.append((f"R{R}M{M}~{mode}", build_program(R, ops, {r: outs[r] for r in range(R)}, mode=mode)))
    # structured larger families
    res += structured(tier)
    return res


def ring(R, rounds=1):
    ops = []
    for k in range(rounds):
        for r in range(R):
            deps = [len(ops) - R + ((r - 1) % R - r) + 0] if False else []
            ops.append({"src": r, "dst": (r + 1) % R, "tag": 100 + len(ops), "deps": [], "use_input": True})
    # second round depends on what was received in the first
    if rounds == 2:
        for r in range(R):
            i = R + r
            prev = [j for j in range(R) if ops[j]["dst"] == r]
            ops[i]["deps"] = prev
            ops[i]["use_input"] = False
    outs = {r: {"deps": [i for i, o in enumerate(ops) if o["dst"] == r], "use_input": True, "kind": "combine"} for r in range(R)}
    return build_program(R, ops, outs)


def star(R):
    ops = []
    for r in range(1, R):
        ops.append({"src": 0, "dst": r, "tag": 100 + len(ops), "deps": [], "use_input": True})
    for r in range(1, R):
        ops.append({"src": r, "dst": 0, "tag": 100 + len(ops), "deps": [r - 1], "use_input": True})
    outs = {r: {"deps": [i for i, o in enumerate(ops) if o["dst"] == r], "use_input": r != 0, "kind": "combine"} for r in range(R)}
    return build_program(R, ops, outs)


def chain(R):
    ops = []
    for r in range(R - 1):
        ops.append({"src": r, "dst": r + 1, "tag": 100 + r, "deps": [r - 1] if r else [], "use_input": True})
    outs = {r: {"deps": [i for i, o in enumerate(ops) if o["dst"] == r], "use_input": True, "kind": "combine"} for r in range(R)}
    return build_program(R, ops, outs)


def multi_send(R=2, n=3):
    """a rank sends several results to one peer; the same array sent twice"""
    ops = [{"src": 0, "dst": 1, "tag": 100 + i, "deps": [], "use_input": True} for i in range(n)]
    ops.append({"src": 1, "dst": 0, "tag": 100 + n, "deps": list(range(n)), "use_input": False})
    outs = {0: {"deps": [n], "use_input": True, "kind": "combine"}, 1: {"deps": [0], "use_input": False, "kind": "passthrough"}}
    return build_program(R, ops, outs)


def multi_stage_shared(kind, K=3, rounds=2, outer_first=False):
    """2 ranks exchanging in several rounds; every round's payload and the output re-use the same K materialised
    arrays (kind: "inputs" = K placeholders, "stored" = K stored intermediates of x, "mixed")"""
    R = 2
    ops = []
    for k in range(rounds):
        for r in range(R):
            ops.append({"src": r, "dst": 1 - r, "tag": 100 + len(ops), "deps": [], "use_input": True})
    ranks = {}
    for r in range(R):
        if kind == "inputs":
            shared = [["ph", n, SHAPE, DT, f"rank{r}"] for n in ("x", "y", "z", "w")[:K]]
        elif kind == "stored":
            shared = [["tag", ["stored"], ["bin", "mul", inp(r), ["py", float(k + 2)]]] for k in range(K)]
        else:
            shared = [["ph", "y", SHAPE, DT, f"rank{r}"]] + \
                [["tag", ["stored"], ["bin", "mul", inp(r), ["py", float(k + 2)]]] for k in range(K - 1)]
        out = None
        prev = None
        sends = []
        for k in range(rounds):
            i = k * R + r
            parts = list(shared if not (k % 2 and outer_first) else reversed(shared))
            if prev is not None:
                parts = [prev, *parts]
            sends.append((i, combine(parts, 10 * (i + 1))))
            prev = recv_term(ops[k * R + (1 - r)])
        out = combine([prev, *shared], 1000 * (r + 1))
        res = out
        for i, pl in (reversed(sends) if outer_first else sends):
            res = ["send", pl, ops[i]["dst"], ops[i]["tag"], res]
        ranks[r] = {"outs": [["out", res]]}
    for k in range(1, rounds):
        for r in range(R):
            ops[k * R + r]["deps"] = [(k - 1) * R + (1 - r)]
    return {"R": R, "ops": ops, "ranks": ranks, "mode": "plain"}


def wrapper_fanout(K=3, kind="wrappers"):
    """rank 0 sends K different results to rank 1 in one round (one part with K+1 outputs), every output reads a
    different unnamed data wrapper (kind 'wrappers') / placeholder (kind 'inputs'); rank 1 combines what it got
    with wrappers of its own and answers"""
    R = 2
    ops = [{"src": 0, "dst": 1, "tag": 100 + k, "deps": [], "use_input": True} for k in range(K)]
    ops.append({"src": 1, "dst": 0, "tag": 100 + K, "deps": list(range(K)), "use_input": True})

    def leaf(r, k):
        if kind == "wrappers":
            return ["dw", f"w{k}r{r}", SHAPE, DT]
        return ["ph", "xyzwuv"[k], SHAPE, DT, f"rank{r}"]
    out0 = ["bin", "add", ["bin", "mul", recv_term(ops[K]), ["py", 2.0]], leaf(0, K)]
    res = out0
    for k in range(K):
        res = ["send", ["bin", "mul", leaf(0, k), ["py", float(k + 2)]], 1, ops[k]["tag"], res]
    back = combine([recv_term(ops[k]) for k in range(K)] + [leaf(1, 0)], 70)
    out1 = combine([recv_term(ops[0]), leaf(1, 1), leaf(1, 2)], 2000)
    ranks = {0: {"outs": [["out", res], ["aux", ["bin", "add", leaf(0, K + 1), ["py", 1.0]]]]},
             1: {"outs": [["out", ["send", back, 0, ops[K]["tag"], out1]]]}}
    return {"R": R, "ops": ops, "ranks": ranks, "mode": "plain"}


def holder_in_payload(variant="later-recv"):
    """a send whose payload contains a send holder (the value of a holder is its passthrough data, so the payload does
    not depend on what the held send transmits).  variant 'later-recv': the held send depends on a receive that can
    only arrive after this payload was sent (acyclic by value, cyclic if the held send's data counted as a dependency);
    variant 'independent': the held send depends on the input only"""
    R = 2
    ops = [{"src": 1, "dst": 0, "tag": 100, "deps": [2], "use_input": False},
           {"src": 0, "dst": 1, "tag": 101, "deps": [0] if variant == "later-recv" else [], "use_input": variant != "later-recv"},
           {"src": 0, "dst": 1, "tag": 102, "deps": [], "use_input": True}]
    ra = recv_term(ops[0])
    held_data = ["bin", "mul", ra, ["py", 2.0]] if variant == "later-recv" else ["bin", "mul", inp(0), ["py", 2.0]]
    H = ["send", held_data, 1, 101, inp(0)]
    out0 = ["send", ["bin", "add", H, ["py", 1.0]], 1, 102, ["bin", "add", ["bin", "mul", inp(0), ["py", 0.5]], ["bin", "mul", ra, ["py", 3.0]]]]
    rc = recv_term(ops[2])
    out1 = ["send", ["bin", "mul", rc, ["py", 3.0]], 0, 100, ["bin", "add", recv_term(ops[1]), inp(1)]]
    return {"R": R, "ops": ops, "ranks": {0: {"outs": [["out", out0]]}, 1: {"outs": [["out", out1]]}}, "mode": "plain"}


def relay3(perm=(0, 1, 2), extra_hops=1):
    """three ranks; rank b gets an early message A from a and, over a detour through c (extra_hops relays), a later
    message B from c; b answers B with S, on which its last receive C depends: b has three (or more) consecutive parts,
    and messages of a later round can arrive before or together with those of an earlier one"""
    a, b, c = perm
    ops = [{"src": a, "dst": b, "tag": 100, "deps": [], "use_input": True},        # A
           {"src": a, "dst": c, "tag": 101, "deps": [], "use_input": True}]        # A2
    last = 1
    cur = c
    for _h in range(extra_hops - 1):                                                # optional longer detour c -> a -> c
        nxt = a if cur == c else c
        ops.append({"src": cur, "dst": nxt, "tag": 100 + len(ops), "deps": [last], "use_input": False})
        last, cur = len(ops) - 1, nxt
    if cur != c:
        ops.append({"src": cur, "dst": c, "tag": 100 + len(ops), "deps": [last], "use_input": False})
        last = len(ops) - 1
    ops.append({"src": c, "dst": b, "tag": 100 + len(ops), "deps": [last], "use_input": True})      # B
    ib = len(ops) - 1
    ops.append({"src": b, "dst": c, "tag": 100 + len(ops), "deps": [ib], "use_input": False})        # S
    ops.append({"src": c, "dst": b, "tag": 100 + len(ops), "deps": [len(ops) - 1], "use_input": True})   # C
    outs = {r: {"deps": [i for i, o in enumerate(ops) if o["dst"] == r], "use_input": True, "kind": "combine"} for r in range(3)}
    return build_program(3, ops, outs)


def relay_reuse(H=1, first="old", mode="plain", out_newest_first=False):
    """two ranks; H receives b, sends d = f(b) back, receives the answer c (which depends on d) and finally sends
    a = g(b, c): the last message needs an old receive both directly and through a newer one ('first' = which of the two
    is read first in the payload)"""
    P = 1 - H
    ops = [{"src": P, "dst": H, "tag": 100, "deps": [], "use_input": True},            # b
           {"src": H, "dst": P, "tag": 101, "deps": [0], "use_input": False},          # d
           {"src": P, "dst": H, "tag": 102, "deps": [1], "use_input": True},           # c
           {"src": H, "dst": P, "tag": 103, "deps": [0, 2] if first == "old" else [2, 0], "use_input": False}]   # a
    outs = {H: {"deps": [0, 2], "use_input": True, "kind": "combine"}, P: {"deps": [1, 3], "use_input": True, "kind": "combine"}}
    if out_newest_first:      # the outputs read their newest receive first
        outs = {r: dict(o, deps=list(reversed(o["deps"]))) for r, o in outs.items()}
    return build_program(2, ops, outs, mode=mode)


def structured(tier):
    res = []
    for H in (0, 1):
        for first in ("old", "new"):
            res.append((f"relay-reuse-H{H}-{first}", relay_reuse(H, first)))
            res.append((f"relay-reuse-H{H}-{first}~rf", relay_reuse(H, first, mode="rf")))
            res.append((f"relay-reuse-H{H}-{first}-newest-first~rf", relay_reuse(H, first, mode="rf", out_newest_first=True)))
    for perm in ((0, 1, 2), (2, 0, 1), (1, 2, 0), (0, 2, 1)):
        res.append((f"relay3-{''.join(map(str, perm))}", relay3(perm)))
    res.append(("relay3-long", relay3((0, 1, 2), extra_hops=3)))
    res.append(("holder-in-payload", holder_in_payload("independent")))
    res.append(("holder-in-payload-later-recv", holder_in_payload("later-recv")))
    for K in (2, 3):
        res.append((f"wrapper-fanout{K}", wrapper_fanout(K)))
    res.append(("input-fanout3", wrapper_fanout(3, "inputs")))
    for kind in ("inputs", "stored", "mixed"):
        for K in (2, 3):
            res.append((f"multi-stage-{kind}{K}", multi_stage_shared(kind, K)))
        res.append((f"multi-stage-{kind}3-outer-first", multi_stage_shared(kind, 3, outer_first=True)))
    if tier != "quick":
        for kind in ("inputs", "stored", "mixed"):
            res.append((f"multi-stage-{kind}4x3", multi_stage_shared(kind, 4, rounds=3)))
    for R in (2, 3):
        res.append((f"ring{R}", ring(R)))
        res.append((f"ring{R}x2", ring(R, 2)))
    res.append(("star3", star(3)))
    res.append(("chain3", chain(3)))
    res.append(("multi-send", multi_send()))
    if tier != "quick":
        res += [("ring4", ring(4)), ("star4", star(4)), ("chain4", chain(4)), ("ring4x2", ring(4, 2)),
                ("multi-send4", multi_send(2, 4))]
    # stored intermediates at every position of a few programs
    base = [ring(2, 2), star(3), multi_send()]
    for b in base:
        ops = b["ops"]
        outs_sk = None
        del outs_sk
        for i in range(len(ops)):
            res.append(("stored-payload", _with_stored(b, {"op": i})))
        for r in range(b["R"]):
            res.append(("stored-output", _with_stored(b, {"out": r})))
    return res


def _with_stored(prog, stored):
    # rebuild from the skeleton kept in the program
    R, ops = prog["R"], prog["ops"]
    outs = {}
    for r in range(R):
        recvd = [i for i, o in enumerate(ops) if o["dst"] == r]
        outs[r] = {"deps": recvd, "use_input": True, "kind": "combine"}
    return build_program(R, ops, outs, stored=stored)


# --------------------------------------------------------------------------
# faults (C10)

FAULT_KINDS = ("drop-send", "drop-recv", "dup-send", "dup-recv", "retag-send", "retag-recv", "redirect-send",
               "redirect-recv", "self-send", "close-cycle")
