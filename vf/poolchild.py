"""Child interpreter for cross-process checks (C04, C18): run with its own PYTHONHASHSEED.

  python -m vf.poolchild compare <picklefile>   -> JSON on stdout
  python -m vf.poolchild serve                   -> length-prefixed pickle echo server on stdin/stdout
"""
from __future__ import annotations

import json
import pickle
import struct
import sys
import warnings

warnings.filterwarnings("ignore")


def full_pool():
    """deterministic pool: base nodes and all their single-field mutants"""
    from vf import nodepool
    g, base = nodepool.base_nodes()
    items = [("graph", g)]
    for label, n in base:
        items.append((label, n))
        ms, _ = nodepool.mutants(n)
        for f, d, m, eq in ms:
            items.append((f"{label}/{f}/{d}", m))
    return items


def compare(path):
    import vf  # noqa: F401
    from pytato.analysis import PytatoKeyBuilder
    with open(path, "rb") as f:
        payload = pickle.load(f)
    labels = payload["labels"]
    loaded = payload["objects"]
    own = full_pool()
    res = {"n": len(own), "labels_match": [l for l, _ in own] == labels, "items": []}
    kb = PytatoKeyBuilder()
    # before anything is hashed in this process: does a cached hash travel inside the pickle?
    had = ["_hash_value" in getattr(l, "__dict__", {}) for l in loaded]
    for ((label, o), l), had_cache in zip(zip(own, loaded), had):
        item = {"label": label, "cached_hash_in_unpickled": had_cache}
        try:
            item["eq"] = bool(l == o)
            item["eq_sym"] = bool(o == l)
        except Exception as e:  # noqa: BLE001
            item["eq_error"] = f"{type(e).__name__}: {e}"[:200]
        try:
            item["hash_eq"] = hash(l) == hash(o)
        except Exception as e:  # noqa: BLE001
            item["hash_error"] = f"{type(e).__name__}: {e}"[:200]
        try:
            item["key_own"] = kb(o)
            item["key_loaded"] = PytatoKeyBuilder()(l)
        except Exception as e:  # noqa: BLE001
            item["key_error"] = f"{type(e).__name__}: {e}"[:200]
        res["items"].append(item)
    print(json.dumps(res))


def serve():
    import vf  # noqa: F401
    import pytato  # noqa: F401
    inp, out = sys.stdin.buffer, sys.stdout.buffer
    while True:
        hdr = inp.read(8)
        if len(hdr) < 8:
            return
        n = struct.unpack("<Q", hdr)[0]
        data = inp.read(n)
        obj = pickle.loads(data)
        try:
            from vf import reflect
            stale = any("_hash_value" in getattr(x, "__dict__", {}) for x in reflect.walk(obj))
        except Exception:  # noqa: BLE001
            stale = False
        try:
            h = ("STALE" if stale else hash(obj))      # populates the hash cache in this process
        except Exception:  # noqa: BLE001
            h = None
        back = pickle.dumps((obj, h))
        out.write(struct.pack("<Q", len(back)))
        out.write(back)
        out.flush()


if __name__ == "__main__":
    if sys.argv[1] == "compare":
        compare(sys.argv[2])
    else:
        serve()
