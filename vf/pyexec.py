"""NumPy as the 'numpy-like' module for pytato's Python target (DESIGN §4.6)."""
from __future__ import annotations

import vf  # noqa: F401
from pytato.target.python import BoundPythonProgram, NumpyLikePythonTarget


class NumpyTarget(NumpyLikePythonTarget):
    @property
    def numpy_like_module_name(self):
        return "numpy"

    @property
    def numpy_like_module_name_shorthand(self):
        return "_pt_np"

    def bind_program(self, program, entrypoint, expected_arguments, bound_arguments):
        return BoundPythonProgram(target=self, program=program, entrypoint=entrypoint,
                                  expected_arguments=expected_arguments,
                                  bound_arguments=dict(bound_arguments))


def generate(outputs, function_name="_pt_kernel"):
    from pytato.target.python.numpy_like import generate_numpy_like
    return generate_numpy_like(outputs, target=NumpyTarget(), function_name=function_name,
                               show_code=False, entrypoint_decorators=(), extra_preambles=())
