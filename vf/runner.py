"""Case-sharded exhaustive runner.

A check module provides

    PROPERTY, LEVEL, RULE, ASSUMPTIONS, TECHNIQUE
    enumerate_cases(tier, seed) -> list of JSON-able case descriptors
    run_case(case) -> {"key":…, "nontrivial":bool, "outcome":str,
                       "violations":[{"sig":{…}, "msg":str}],
                       "states":int, "transitions":int, "traces":int,
                       "counters":{name:int}}
    (optional) vacuity(summary) -> str | None
    (optional) finalize(summary) -> list of violations (cross-case oracles)

The master enumerates the *complete* case list, writes it to a scratch file and
starts `workers` fresh interpreter processes (PYTHONHASHSEED=0); worker i runs
cases[i::workers].  Nothing is sampled: every enumerated case is executed.  A
worker that dies (SIGSEGV in generated code, …) is detected through its exit
status and the case it was running is reported as a violation.
"""
from __future__ import annotations

import collections
import hashlib
import importlib
import json
import os
import pickle
import shutil
import signal
import subprocess
import sys
import tempfile
import time
import traceback

from vf import VERIF_DIR, REPO

PY = sys.executable
CASE_TIMEOUT = int(os.environ.get("VERIF_CASE_TIMEOUT", "600"))


def stable_hash(obj) -> str:
    return hashlib.md5(json.dumps(obj, sort_keys=True, default=str).encode()).hexdigest()


def slice_by_seed(cases, seed, nslices):
    """Deterministic 1/nslices slice of an enumerated space chosen by seed."""
    r = seed % nslices
    return [c for c in cases if int(stable_hash(c)[:8], 16) % nslices == r]


def load_known():
    p = os.path.join(VERIF_DIR, "known_findings.json")
    if not os.path.exists(p):
        return []
    with open(p) as f:
        return json.load(f)


class _Timeout(BaseException):      # (not an Exception: a check's own `except Exception` must not swallow it)
    pass


def _alarm(signum, frame):
    raise _Timeout()


def safe_run_case(mod, case):
    """run one case; harness exceptions become violations of kind harness-error
    so that they are never silently dropped."""
    signal.signal(signal.SIGALRM, _alarm)
    signal.alarm(CASE_TIMEOUT)
    try:
        res = mod.run_case(case)
    except _Timeout:
        res = {"key": None, "nontrivial": False, "outcome": "timeout",
               "violations": [{"sig": {"kind": "timeout"},
                               "msg": f"case did not finish in {CASE_TIMEOUT}s"}]}
    except Exception as e:  # noqa: BLE001
        res = {"key": None, "nontrivial": False, "outcome": "harness-exception",
               "violations": [{"sig": {"kind": "harness-exception",
                                       "type": type(e).__name__},
                               "msg": "".join(traceback.format_exception(e))[-3000:]}]}
    finally:
        signal.alarm(0)
    return res


def worker_main(argv):
    modname, shard, nshards, casefile, outfile = argv
    shard, nshards = int(shard), int(nshards)
    mod = importlib.import_module(modname)
    with open(casefile, "rb") as f:
        cases = pickle.load(f)
    if hasattr(mod, "setup_worker"):
        mod.setup_worker()
    agg = new_agg()
    curfile = outfile + ".cur"
    for idx in range(shard, len(cases), nshards):
        case = cases[idx]
        with open(curfile, "w") as f:
            json.dump(idx, f)
        res = safe_run_case(mod, case)
        if res.get("violations"):
            # a failure is only trusted when the same case fails the same way on re-execution (an exception that the
            # environment injects once -- memory pressure, an interrupted system call -- is not a property violation);
            # what is not reproduced is counted and listed in the evidence, never dropped silently
            res2 = safe_run_case(mod, case)

            def _k(v):
                return json.dumps(v.get("sig"), sort_keys=True, default=str)
            again = {_k(v) for v in res2.get("violations", [])}
            confirmed = [v for v in res["violations"] if _k(v) in again]
            unconfirmed = [v for v in res["violations"] if _k(v) not in again]
            if unconfirmed:
                res = dict(res, violations=confirmed)
                if not confirmed:
                    res["outcome"] = res2.get("outcome", "ok") if not res2.get("violations") else res.get("outcome")
                cnt = dict(res.get("counters") or {})
                cnt["violations_not_reproduced_on_re-execution"] = cnt.get("violations_not_reproduced_on_re-execution", 0) + len(unconfirmed)
                res["counters"] = cnt
                agg["collect"].append({"not_reproduced": [{"sig": v.get("sig"), "msg": str(v.get("msg"))[:600]} for v in unconfirmed[:3]],
                                       "case_index": idx})
                sys.stderr.write(f"NOT-REPRODUCED (case {idx}): {[v.get('sig') for v in unconfirmed[:3]]}\n")
        merge_result(agg, idx, case, res)
    # determinism self-check: re-run the first case of the shard and compare
    if shard < len(cases) and getattr(mod, "DETERMINISM_CHECK", True):
        c = cases[shard]
        r1 = safe_run_case(mod, c)
        r2 = safe_run_case(mod, c)
        k1 = json.dumps({k: r1.get(k) for k in ("key", "outcome", "violations")}, sort_keys=True, default=str)
        k2 = json.dumps({k: r2.get(k) for k in ("key", "outcome", "violations")}, sort_keys=True, default=str)
        agg["determinism_checked"] += 1
        if k1 != k2:
            agg["violations"].append({"idx": shard, "case": c,
                "sig": {"kind": "harness-nondeterminism"},
                "msg": f"same case observed differently twice:\n{k1}\n{k2}"})
    with open(outfile, "wb") as f:
        pickle.dump(agg, f)
    os.unlink(curfile)


def new_agg():
    return {"evaluations": 0, "keys": set(), "nontrivial_keys": set(),
            "outcomes": collections.Counter(), "violations": [],
            "states": 0, "transitions": 0, "traces": 0,
            "counters": collections.Counter(), "samples": [],
            "determinism_checked": 0, "notes": collections.Counter(),
            "collect": []}


MAX_VIOL_KEPT = 400


def merge_result(agg, idx, case, res):
    agg["evaluations"] += res.get("evaluations", 1)
    key = res.get("key")
    if key is not None:
        h = stable_hash(key)[:16]
        agg["keys"].add(h)
        if res.get("nontrivial"):
            agg["nontrivial_keys"].add(h)
    for k in res.get("keys", ()):  # a case may cover many distinct sub-cases
        h = stable_hash(k)[:16]
        agg["keys"].add(h)
        agg["nontrivial_keys"].add(h)
    oc = res.get("outcome", "ok")
    if isinstance(oc, (list, tuple)):
        for o in oc:
            agg["outcomes"][o] += 1
    else:
        agg["outcomes"][oc] += 1
    agg["states"] += res.get("states", 0)
    agg["transitions"] += res.get("transitions", 0)
    agg["traces"] += res.get("traces", 0)
    for k, v in (res.get("counters") or {}).items():
        agg["counters"][k] += v
    if "collect" in res:
        agg["collect"].append((idx, res["collect"]))
    for v in res.get("violations", ()):
        if len(agg["violations"]) < MAX_VIOL_KEPT or not any(
                v["sig"] == w["sig"] for w in agg["violations"]):
            agg["violations"].append({"idx": idx, "case": case, **v})
        agg["counters"]["violating_cases"] += 1
    if len(agg["samples"]) < 3 and res.get("sample") is not None:
        agg["samples"].append(res["sample"])


def merge_aggs(a, b):
    a["evaluations"] += b["evaluations"]
    a["keys"] |= b["keys"]
    a["nontrivial_keys"] |= b["nontrivial_keys"]
    a["outcomes"] += b["outcomes"]
    a["violations"] += b["violations"]
    for k in ("states", "transitions", "traces", "determinism_checked"):
        a[k] += b[k]
    a["counters"] += b["counters"]
    a["samples"] += b["samples"]
    a["collect"] += b["collect"]


def run_check(modname, tier, seed, replay=None, workers=None):
    t0 = time.time()
    mod = importlib.import_module(modname)
    pid = mod.PROPERTY
    known = [k for k in load_known() if k["property"] == pid]
    scratch = tempfile.mkdtemp(prefix="ptv-", dir="/var/tmp")
    env = dict(os.environ)
    env.update({"PYTHONHASHSEED": env.get("VERIF_HASHSEED", "0"),
                "PYTHONDONTWRITEBYTECODE": "1",
                "XDG_CACHE_HOME": os.path.join(scratch, "cache"),
                "VERIF_SCRATCH": scratch, "LOOPY_NO_CACHE": "1",
                "OMP_NUM_THREADS": "1", "OPENBLAS_NUM_THREADS": "1",
                "VERIF_REPO": REPO, "VERIF_TIER": tier, "VERIF_SEED": str(seed),
                "PYTHONPATH": VERIF_DIR + os.pathsep + env.get("PYTHONPATH", "")})
    os.environ["VERIF_SCRATCH"] = scratch
    os.environ["XDG_CACHE_HOME"] = os.path.join(scratch, "cache")
    os.environ["LOOPY_NO_CACHE"] = "1"
    try:
        if replay:
            with open(replay) as f:
                rp = json.load(f)
            cases = [rp["case"]]
        else:
            cases = mod.enumerate_cases(tier, seed)
        ncases = len(cases)
        if workers is None:
            workers = int(os.environ.get("VERIF_WORKERS", "16"))
        workers = max(1, min(workers, ncases))
        agg = new_agg()
        if replay or ncases <= 2 or workers == 1:
            if hasattr(mod, "setup_worker"):
                mod.setup_worker()
            for idx, c in enumerate(cases):
                merge_result(agg, idx, c, safe_run_case(mod, c))
        else:
            casefile = os.path.join(scratch, "cases.pkl")
            with open(casefile, "wb") as f:
                pickle.dump(cases, f)
            procs = []
            for i in range(workers):
                out = os.path.join(scratch, f"out{i}.pkl")
                log = open(os.path.join(scratch, f"log{i}.txt"), "wb")
                p = subprocess.Popen(
                    [PY, "-m", "vf.runner", "--worker", modname, str(i),
                     str(workers), casefile, out],
                    env=env, cwd=VERIF_DIR, stdout=log, stderr=subprocess.STDOUT)
                procs.append((p, out, log, i))
            for p, out, log, i in procs:
                rc = p.wait()
                log.close()
                if rc == 0 and os.path.exists(out):
                    with open(out, "rb") as f:
                        merge_aggs(agg, pickle.load(f))
                else:
                    cur = None
                    try:
                        with open(out + ".cur") as f:
                            cur = json.load(f)
                    except Exception:  # noqa: BLE001
                        pass
                    with open(os.path.join(scratch, f"log{i}.txt"), "rb") as f:
                        tail = f.read()[-2000:].decode(errors="replace")
                    agg["violations"].append({
                        "idx": cur, "case": cases[cur] if cur is not None else None,
                        "sig": {"kind": "worker-crash", "rc": rc},
                        "msg": f"worker {i} exited with status {rc} while running case {cur}\n{tail}"})
                    agg["counters"]["worker_crashes"] += 1
        summary = agg
        summary["ncases"] = ncases
        if hasattr(mod, "finalize") and not replay:
            for v in mod.finalize(summary, cases) or ():
                agg["violations"].append(v)
        vac = None
        if not replay and hasattr(mod, "vacuity"):
            vac = mod.vacuity(summary)
        return report(mod, tier, seed, agg, known, vac, time.time() - t0, replay)
    finally:
        shutil.rmtree(scratch, ignore_errors=True)


def sig_matches(known_sig, sig):
    """exact match, except that a known value of the form {"any_of": [...]}
    admits any listed value for that key (one defect reached through several
    operand kinds); keys must coincide."""
    if set(known_sig) != set(sig):
        return False
    for k, v in known_sig.items():
        if isinstance(v, dict) and "any_of" in v:
            if sig[k] not in v["any_of"]:
                return False
        elif v != sig[k]:
            return False
    return True


def report(mod, tier, seed, agg, known, vac, wall, replay):
    pid = mod.PROPERTY
    # classify violations
    new_viol, known_hit = [], collections.OrderedDict()
    for v in agg["violations"]:
        hit = None
        for k in known:
            if k.get("status", "open") == "open" and sig_matches(k["signature"], v["sig"]):
                hit = k
                break
        if hit is not None:
            known_hit.setdefault(json.dumps(hit["signature"], sort_keys=True), (hit, []))[1].append(v)
        else:
            new_viol.append(v)
    for _, (k, vs) in known_hit.items():
        print(f"KNOWN-FINDING: property={pid} {k['what']} (signature {json.dumps(k['signature'], sort_keys=True)}; {len(vs)} case(s) kept)")
    # replay files for new violations (one per distinct signature, first case)
    rdir = os.path.join(os.environ.get("VERIF_OUT_DIR", VERIF_DIR), "replays", pid)
    seen_sigs = {}
    for v in new_viol:
        s = json.dumps(v["sig"], sort_keys=True)
        if s in seen_sigs:
            seen_sigs[s][1] += 1
            continue
        os.makedirs(rdir, exist_ok=True)
        path = os.path.join(rdir, stable_hash([v["sig"], v["case"]])[:12] + ".json")
        with open(path, "w") as f:
            json.dump({"property": pid, "case": v["case"], "signature": v["sig"],
                       "message": v["msg"],
                       "how_to_read": f"./check {pid} --replay {path} re-runs exactly this case on the implementation"},
                      f, indent=1, default=str)
        seen_sigs[s] = [path, 1, v]
    for s, (path, n, v) in seen_sigs.items():
        print(f"VIOLATION property={pid} replay={path}")
        print(f"   signature={s} cases={n}\n   " + v["msg"].replace("\n", "\n   ")[:1500])
    if vac:
        path = os.path.join(os.environ.get("VERIF_OUT_DIR", VERIF_DIR), "replays", pid, "vacuous.json")
        os.makedirs(os.path.dirname(path), exist_ok=True)
        with open(path, "w") as f:
            json.dump({"property": pid, "vacuous": vac}, f)
        print(f"VIOLATION property={pid} replay={path}")
        print(f"   vacuous exploration: {vac}")
    nviol = len(seen_sigs) + (1 if vac else 0)
    if not replay:
        write_evidence(mod, tier, seed, agg, wall, nviol, known_hit)
    oc = dict(agg["outcomes"].most_common(12))
    print(f"[{pid}] tier={tier} seed={seed} cases={agg.get('ncases')} evaluations={agg['evaluations']} "
          f"distinct={len(agg['keys'])} nontrivial={len(agg['nontrivial_keys'])} states={agg['states']} "
          f"transitions={agg['transitions']} outcomes={oc} counters={dict(agg['counters'])} "
          f"known_findings={len(known_hit)} violations={nviol} wall={wall:.1f}s")
    return 1 if nviol else 0


def write_evidence(mod, tier, seed, agg, wall, nviol, known_hit):
    pid = mod.PROPERTY
    cov = {
        "evaluations": agg["evaluations"],
        "distinct_nontrivial": len(agg["nontrivial_keys"]),
        "distinct_cases": len(agg["keys"]),
        "rule": mod.RULE,
        "samples": agg["samples"][:5] or ["(no sample recorded)"],
        "exhaustive": True,
        "outcomes": dict(agg["outcomes"]),
        "distinct_outcomes": len(agg["outcomes"]),
        "counters": dict(agg["counters"]),
        "determinism_self_checks": agg["determinism_checked"],
        "known_findings_hit": [json.loads(s) for s in known_hit],
        "bounds": getattr(mod, "bounds", lambda t: {})(tier),
    }
    if mod.LEVEL == "model_checking":
        cov["states"] = agg["states"]
        cov["transitions"] = agg["transitions"]
        cov["traces_validated_against_impl"] = agg["traces"]
    import numpy
    try:
        import loopy
        lv = loopy.version.VERSION_TEXT
    except Exception:  # noqa: BLE001
        lv = "?"
    ev = {"property_id": pid, "tier": tier, "seed": seed, "level": mod.LEVEL,
          "coverage": cov,
          "assumptions": list(mod.ASSUMPTIONS) + [
              f"numpy {numpy.__version__}, loopy {lv}, python {sys.version.split()[0]} as installed in /venv"],
          "wall_s": round(wall, 2), "violations": nviol,
          "technique": getattr(mod, "TECHNIQUE", "")}
    edir = os.path.join(os.environ.get("VERIF_OUT_DIR", VERIF_DIR), "evidence")
    os.makedirs(edir, exist_ok=True)
    with open(os.path.join(edir, pid + ".json"), "w") as f:
        json.dump(ev, f, indent=1, default=str)


if __name__ == "__main__":
    if sys.argv[1] == "--worker":
        worker_main(sys.argv[2:])
