def eval_shape_component(d, sizes):
    raise NotImplementedError
