"""NumPy evaluator of arbitrary pytato DAGs (DESIGN §4.5).

High-level nodes are evaluated by their NumPy meaning, IndexLambda through the
independent pointwise interpreter, calls by evaluating the body with the
bindings.  Needed wherever no term exists any more (after transformations).
"""
from __future__ import annotations

import numpy as np

import vf  # noqa: F401
from vf import scalar_interp


class EvalError(Exception):
    pass


class DagEval:
    def __init__(self, inputs=None, sizes=None, recvs=None, lpcall=None):
        self.inputs = dict(inputs or {})
        self.sizes = dict(sizes or {})
        self.recvs = recvs or {}     # (src_rank, comm_tag) -> ndarray
        self.cache = {}
        self.keep = []
        self.lpcall = lpcall         # callable(LoopyCall, {name: value}) -> {name: ndarray}
        self.sends = []              # DistributedSend nodes met (payload evaluated)

    def shape(self, shp):
        return tuple(self.dim(d) for d in shp)

    def dim(self, d):
        if isinstance(d, (int, np.integer)):
            return int(d)
        return int(self(d))

    def __call__(self, expr):
        k = id(expr)
        if k in self.cache:
            return self.cache[k]
        with np.errstate(all="ignore"):
            r = self._eval(expr)
        self.cache[k] = r
        self.keep.append(expr)
        return r

    def _eval(self, e):  # noqa: C901
        import pytato as pt
        from pytato.array import NormalizedSlice
        from pytato.function import Call, NamedCallResult
        from pytato.loopy import LoopyCall, LoopyCallResult
        E = self
        if isinstance(e, pt.SizeParam):
            if e.name not in self.sizes:
                raise EvalError(f"no value for size parameter {e.name!r}")
            return np.asarray(self.sizes[e.name], dtype=e.dtype)
        if isinstance(e, pt.Placeholder):
            if e.name not in self.inputs:
                raise EvalError(f"no value for placeholder {e.name!r}")
            a = np.asarray(self.inputs[e.name])
            shp = self.shape(e.shape)
            if a.shape != shp:
                raise EvalError(f"placeholder {e.name!r}: value shape {a.shape} != declared {shp}")
            if a.dtype != e.dtype:
                raise EvalError(f"placeholder {e.name!r}: value dtype {a.dtype} != declared {e.dtype}")
            return a
        if isinstance(e, pt.DataWrapper):
            return np.asarray(e.data)
        if isinstance(e, pt.IndexLambda):
            b = {n: np.asarray(E(a)) for n, a in e.bindings.items()}
            return scalar_interp.eval_index_lambda(e.expr, self.shape(e.shape), e.dtype, b)
        if isinstance(e, pt.Einsum):
            args = [np.asarray(E(a)) for a in e.args]
            spec = einsum_spec(e)
            with np.errstate(all="ignore"):
                r = np.einsum(spec, *args) if args else None
            return np.asarray(r).astype(e.dtype, copy=False)
        if isinstance(e, pt.Stack):
            return np.stack([E(a) for a in e.arrays], axis=e.axis).astype(e.dtype, copy=False)
        if isinstance(e, pt.Concatenate):
            return np.concatenate([E(a) for a in e.arrays], axis=e.axis).astype(e.dtype, copy=False)
        if isinstance(e, pt.Roll):
            return np.roll(E(e.array), e.shift, e.axis)
        if isinstance(e, pt.AxisPermutation):
            return np.transpose(E(e.array), e.axis_permutation)
        if isinstance(e, pt.Reshape):
            return np.reshape(E(e.array), self.shape(e.newshape), order=e.order)
        if isinstance(e, pt.IndexBase):
            a = np.asarray(E(e.array))
            idx = []
            for i, n in zip(e.indices, a.shape):
                if isinstance(i, NormalizedSlice):
                    st, sp, step = self.dim(i.start), self.dim(i.stop), self.dim(i.step)
                    if step > 0:
                        idx.append(slice(st, sp, step))
                    elif st < 0:
                        idx.append(slice(0, 0, 1))
                    else:
                        idx.append(slice(st, None if sp < 0 else sp, step))
                elif isinstance(i, (int, np.integer)):
                    idx.append(int(i))
                else:
                    idx.append(np.asarray(E(i)))
            return a[tuple(idx)]
        if isinstance(e, pt.CSRMatmul):
            m = e.matrix
            nr, nc = self.shape(m.shape)
            vals, cols, rs = (np.asarray(E(x)) for x in (m.elem_values, m.elem_col_indices, m.row_starts))
            dense = np.zeros((nr, nc), vals.dtype)
            for r in range(nr):
                for j in range(int(rs[r]), int(rs[r + 1])):
                    dense[r, int(cols[j])] += vals[j]
            return (dense @ np.asarray(E(e.array))).astype(e.dtype, copy=False)
        if isinstance(e, NamedCallResult):
            return self._call(e._container)[e.name]
        if isinstance(e, LoopyCallResult):
            return self._loopy_call(e._container)[e.name]
        if isinstance(e, pt.NamedArray):
            return E(e._container._data[e.name]) if hasattr(e._container, "_data") else E(e.expr)
        if isinstance(e, pt.DistributedSendRefHolder):
            self.sends.append((e.send, np.asarray(E(e.send.data))))
            return E(e.passthrough_data)
        if isinstance(e, pt.DistributedRecv):
            key = (e.src_rank, e.comm_tag)
            if key not in self.recvs:
                raise EvalError(f"no message for recv {key}")
            v = self.recvs[key]
            v = np.asarray(v() if callable(v) else v)
            shp = self.shape(e.shape)
            if v.shape != shp or v.dtype != e.dtype:
                raise EvalError(f"recv {key}: message {v.shape}/{v.dtype} != declared {shp}/{e.dtype}")
            return v
        if isinstance(e, (Call, LoopyCall, pt.DictOfNamedArrays)):
            raise EvalError(f"cannot evaluate container {type(e).__name__} as an array")
        raise EvalError(f"unknown node type {type(e).__name__}")

    def _call(self, call):
        k = ("call", id(call))
        if k in self.cache:
            return self.cache[k]
        vals = {n: np.asarray(self(a)) for n, a in call.bindings.items()}
        sub = DagEval(vals, self.sizes, self.recvs, self.lpcall)
        res = {n: np.asarray(sub(a)) for n, a in call.function.returns.items()}
        self.cache[k] = res
        self.keep.append(call)
        return res

    def _loopy_call(self, lc):
        k = ("lpcall", id(lc))
        if k in self.cache:
            return self.cache[k]
        import pytato as pt
        vals = {n: (np.asarray(self(a)) if isinstance(a, pt.Array) else a) for n, a in lc.bindings.items()}
        if self.lpcall is None:
            from vf import lpkernels
            res = lpkernels.eval_loopy_call(lc, vals)
        else:
            res = self.lpcall(lc, vals)
        self.cache[k] = res
        self.keep.append(lc)
        return res


def einsum_spec(e):
    """np.einsum subscripts from the access descriptors (independent of
    pytato.utils.get_einsum_specification)"""
    from pytato.array import EinsumElementwiseAxis, EinsumReductionAxis
    letters = {}

    def letter(d):
        if d not in letters:
            letters[d] = chr(ord("a") + len(letters))
        return letters[d]
    ins = []
    for acc in e.access_descriptors:
        s = ""
        for d in acc:
            if isinstance(d, EinsumElementwiseAxis):
                s += letter(("e", d.dim))
            elif isinstance(d, EinsumReductionAxis):
                s += letter(("r", d.dim))
            else:
                raise EvalError(f"unknown einsum axis descriptor {d!r}")
        ins.append(s)
    out = "".join(letter(("e", i)) for i in range(e.ndim))
    return ",".join(ins) + "->" + out


def eval_dict(outputs, inputs=None, sizes=None, **kw):
    """outputs: DictOfNamedArrays | dict name->Array | Array"""
    import pytato as pt
    ev = DagEval(inputs, sizes, **kw)
    if isinstance(outputs, pt.Array):
        return ev(outputs)
    if isinstance(outputs, pt.DictOfNamedArrays):
        return {n: np.asarray(ev(outputs._data[n])) for n in outputs}
    return {n: np.asarray(ev(a)) for n, a in outputs.items()}


def eval_shape_component(d, sizes):
    return DagEval({}, sizes).dim(d)
