"""DAG family for the traversal / analysis properties (C13, C20, also C04/C18 pools).

Graphs with heavy sharing (diamonds, fans, ladders whose path count is
exponential) and one graph family in which a shared node is reachable through
every kind of edge: operand, shape component, index array, every CSR part,
send payload, passthrough, call binding, loopy-call binding, dict entry, …
Each graph is returned as a DictOfNamedArrays; builders are deterministic.
"""
from __future__ import annotations

import numpy as np


def _pt():
    import pytato as pt
    return pt


def diamond(dup=False):
    pt = _pt()
    x = pt.make_placeholder("x", (4,), np.float64)
    a = x + 1
    b = x * 2
    if dup:
        x2 = pt.make_placeholder("x", (4,), np.float64)
        b = x2 * 2
    return pt.make_dict_of_named_arrays({"out": a + b})


def fan(n=8):
    pt = _pt()
    x = pt.make_placeholder("x", (4,), np.float64)
    s = x * 2
    acc = None
    for i in range(n):
        t = s + float(i)
        acc = t if acc is None else acc + t
    return pt.make_dict_of_named_arrays({"out": acc, "s": s})


def ladder(depth):
    pt = _pt()
    x = pt.make_placeholder("x", (4,), np.float64)
    cur = x
    for _ in range(depth):
        cur = cur + cur
    return pt.make_dict_of_named_arrays({"out": cur})


def ladder2(depth):
    """two rails with cross links: every level uses both nodes of the previous level"""
    pt = _pt()
    x = pt.make_placeholder("x", (4,), np.float64)
    a, b = x + 1, x * 2
    for _ in range(depth):
        a, b = a + b, a * b
    return pt.make_dict_of_named_arrays({"a": a, "b": b})


def every_edge_kind(dup=False, tagged=False, with_dist=True, with_calls=True):  # noqa: C901
    """one shared float node `s`, one shared int node `ii`, one size parameter `n`, reachable
    through every kind of edge"""
    pt = _pt()
    from vf import lpkernels, tagdefs
    x = pt.make_placeholder("x", (4,), np.float64)
    iph = pt.make_placeholder("i", (4,), np.int32)
    n = pt.make_size_param("n")
    m = pt.make_size_param("m")

    def mk_s():
        return x * 2.0

    def mk_ii():
        return iph % 4
    s = mk_s()
    ii = mk_ii()
    if tagged:
        s = s.tagged(tagdefs.UserArrayTag("s")).with_tagged_axis(0, tagdefs.UserAxisTag("ax"))
        ii = ii.tagged(pt.tags.ImplStored())

    def S():
        # a structurally equal but distinct object when duplicates are wanted
        if dup:
            r = mk_s()
            if tagged:
                r = r.tagged(tagdefs.UserArrayTag("s")).with_tagged_axis(0, tagdefs.UserAxisTag("ax"))
            return r
        return s
    outs = {}
    outs["operand"] = S() + 1.5
    outs["einsum"] = pt.einsum("i,i->", S(), s)
    s1 = s + 1.0
    outs["stack"] = pt.stack([S(), s + 3.0])
    outs["concat"] = pt.concatenate([S(), s])
    outs["roll"] = pt.roll(S(), 1)
    m2 = s.reshape(2, 2)
    outs["reshape"] = m2 if not dup else S().reshape(2, 2)
    outs["transpose"] = m2.T
    outs["basicidx"] = S()[1:3]
    outs["advidx"] = S()[ii]
    i2 = ii[:2] % 2
    outs["advidx_noncontig"] = pt.stack([m2, m2])[i2, :, i2]
    outs["advidx_two"] = m2[i2, i2]
    outs["where"] = pt.where(pt.greater(S(), 1.0), s, -s)
    ssum = pt.sum(s)
    outs["reduce"] = ssum if not dup else pt.sum(S())
    outs["pad"] = pt.pad(S(), 1)
    # shape components: arrays whose shape mentions n (and n used as a value too)
    y = pt.make_placeholder("y", (n, 4), np.float64)
    outs["sym_shape"] = y + S()
    outs["sym_full"] = pt.zeros((n, 4)) + s
    outs["sym_value"] = s * n
    outs["sym_affine"] = pt.make_placeholder("y2", (2 * n + m,), np.float64) * 2.0
    outs["sym_roll"] = pt.roll(y, 1, 0)
    outs["sym_stack"] = pt.stack([y, y + 2.0])
    outs["sym_idx"] = y[:, 1:3]
    outs["sym_reshape_static"] = pt.transpose(y)
    # CSR parts computed from the shared nodes
    ii3 = ii[:3]
    vals = S()[:3] * 1.5
    cols = (ii3 % 4)
    rows = pt.make_data_wrapper(np.array([0, 2, 3], np.int32)) + 0 * ii3
    mat = pt.make_csr_matrix((2, 4), vals, cols, rows)
    outs["csr"] = mat @ s
    outs["csr2"] = mat @ pt.stack([s, s1], axis=1)
    # data wrapper
    w = pt.make_data_wrapper(np.arange(4.0))
    outs["dw"] = w + S()
    if with_dist:
        send = pt.make_distributed_send(S(), dest_rank=1, comm_tag=42)
        outs["send_holder"] = pt.make_distributed_send_ref_holder(send, s + 7.0)
        outs["send_self_payload"] = pt.staple_distributed_send(s, dest_rank=2, comm_tag=43, stapled_to=s)
        recv = pt.make_distributed_recv(src_rank=1, comm_tag=44, shape=(4,), dtype=np.float64)
        outs["recv"] = recv + S()
        recv_sym = pt.make_distributed_recv(src_rank=1, comm_tag=45, shape=(n, 4), dtype=np.float64)
        outs["recv_sym"] = recv_sym + y
        outs["send_of_recv"] = pt.staple_distributed_send(recv * 2.0, dest_rank=1, comm_tag=46, stapled_to=recv)
    if with_calls:
        def f(a, b):
            return {"p": a + b, "q": a * 2.0}
        r = pt.trace_call(f, S(), s1)
        outs["call_p"] = r["p"]
        outs["call_q"] = r["q"] + s

        def g(a):
            inner = pt.trace_call(lambda u: u * 3.0, a + 1.0)
            return inner - a
        outs["call_nested"] = pt.trace_call(g, S())
        lc = lpkernels.call("double", x=s)    # (call_loopy itself rejects duplicates among its bindings)
        outs["loopy_call"] = lc["y"] + s
        lc2 = lpkernels.call("axpy2", a=ssum, x=lc["y"], z=s)
        outs["loopy_call2_s"] = lc2["s"]
        outs["loopy_call2_d"] = lc2["d"] * 2.0
    # dict entries: the same array under two keys, an input as output
    outs["alias1"] = s
    outs["alias2"] = s
    outs["input"] = x
    outs["index_input"] = ii
    return pt.make_dict_of_named_arrays(outs)


def shared_function_defs(order="fg"):
    """one FunctionDefinition object called from several levels: H from G's body, G from F's body
    and from the top level; both dictionary orders"""
    pt = _pt()
    x = pt.make_placeholder("x", (4,), np.float64)
    a = x * 2.0

    def defn(result_of_trace):
        return result_of_trace._container.function
    hdef = defn(pt.trace_call(lambda u: u + 1.0, a))
    hp = next(iter(hdef.parameters))

    def gbody(u):
        return hdef(**{hp: u * 3.0}) - u
    gdef = defn(pt.trace_call(gbody, a))
    gp = next(iter(gdef.parameters))

    def fbody(u):
        return gdef(**{gp: u + 5.0}) * hdef(**{hp: u})
    fres = pt.trace_call(fbody, a)
    gres = gdef(**{gp: a + 1.0})
    hres = hdef(**{hp: a - 1.0})
    d = {"f": fres, "g": gres, "h": hres}
    keys = list(order) + [k for k in "fgh" if k not in order]
    return pt.make_dict_of_named_arrays({k: d[k] for k in keys})


def shared_buffers(changed_first=False):
    """data wrappers over one buffer (and tag-only twins) with shared consumers: transformations map
    distinct nodes to equal results; changed_first: the twin a tag-stripping transformation changes is
    reached before the twin it leaves alone (a result equal to a *later, unchanged* node)"""
    pt = _pt()
    from vf import tagdefs
    buf = np.arange(4.0)
    d1 = pt.make_data_wrapper(buf)
    d2 = pt.make_data_wrapper(buf)
    x = pt.make_placeholder("x", (4,), np.float64)
    u = d2 + 1.0
    v = x * 2.0
    vt = (x * 2.0).tagged(tagdefs.UserArrayTag("only-difference"))
    if changed_first:
        return pt.make_dict_of_named_arrays({
            "a": u * u + (d1 + 1.0),
            "b": d1 - u,
            "c": (vt * vt) + (v + 1.0),
            "d": vt - v,
        })
    return pt.make_dict_of_named_arrays({
        "a": (d1 + 1.0) + u * u,
        "b": u - d1,
        "c": (v + 1.0) + (vt * vt),
        "d": vt - v,
    })


def named_array_operand():
    """entries of a DictOfNamedArrays (plain NamedArray nodes) used as operands of further nodes"""
    pt = _pt()
    x = pt.make_placeholder("x", (4,), np.float64)
    y = pt.make_placeholder("y", (4,), np.float64)
    d = pt.make_dict_of_named_arrays({"a": 2 * x, "b": x + y})
    return pt.make_dict_of_named_arrays({"out": 3 * d["a"] + y, "other": d["b"] * d["a"]})


def all_graphs(tier="quick"):
    """[(name, builder, has_duplicates)]"""
    G = [
        ("diamond", lambda: diamond(False), False),
        ("diamond-dup", lambda: diamond(True), True),
        ("fan8", lambda: fan(8), False),
        ("ladder2", lambda: ladder(2), False),
        ("ladder10", lambda: ladder(10), False),
        ("ladder60", lambda: ladder(60), False),
        ("ladder2x10", lambda: ladder2(10), False),
        ("ladder2x40", lambda: ladder2(40), False),
        ("edges", lambda: every_edge_kind(False, False), False),
        ("edges-tagged", lambda: every_edge_kind(False, True), False),
        ("edges-dup", lambda: every_edge_kind(True, False), True),
        ("edges-dup-tagged", lambda: every_edge_kind(True, True), True),
        ("edges-nodist", lambda: every_edge_kind(False, False, with_dist=False), False),
        ("edges-nocalls", lambda: every_edge_kind(False, True, with_calls=False), False),
        ("edges-plain", lambda: every_edge_kind(False, False, with_dist=False, with_calls=False), False),
        ("shared-defs-fg", lambda: shared_function_defs("fg"), False),
        ("shared-defs-gf", lambda: shared_function_defs("gf"), False),
        ("shared-defs-hgf", lambda: shared_function_defs("hgf"), False),
        ("shared-buffers", shared_buffers, False),
        ("named-array-operand", named_array_operand, False),
        ("shared-buffers-changed-first", lambda: shared_buffers(True), False),
    ]
    if tier != "quick":
        G += [
            ("fan32", lambda: fan(32), False),
            ("ladder30", lambda: ladder(30), False),
            ("ladder2x20", lambda: ladder2(20), False),
            ("edges-dup-nodist", lambda: every_edge_kind(True, False, with_dist=False), True),
            ("edges-tagged-nodist", lambda: every_edge_kind(False, True, with_dist=False), False),
            ("edges-dup-tagged-nocalls", lambda: every_edge_kind(True, True, with_calls=False), True),
            ("edges-dup-plain", lambda: every_edge_kind(True, False, with_dist=False, with_calls=False), True),
        ] + [(f"shared-defs-{o}", (lambda o=o: shared_function_defs(o)), False) for o in ("fhg", "gfh", "ghf", "hfg")]
    return G
