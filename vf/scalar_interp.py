"""Independent pointwise interpreter of IndexLambda scalar expressions
(DESIGN §4.5).  Implements the *documented* index-lambda semantics: for every
index tuple of `shape` bind _0.._n and evaluate `expr`; identifiers resolve in
`bindings`.  No import from pytato.target / pytato.raising / pytato.transform.

Expressions are compiled once into Python closures (fast enough for the tiny
arrays used) and evaluated lazily (`If` evaluates only the taken branch);
every subscript is bounds-checked — an out-of-bounds read is an error, not a
wrapped access.
"""
from __future__ import annotations

import itertools
import operator

import numpy as np

import pymbolic.primitives as p


class InterpError(Exception):
    pass


class OutOfBounds(InterpError):
    pass


C99 = {
    "abs": np.abs, "fabs": np.abs, "sqrt": np.sqrt, "sin": np.sin, "cos": np.cos, "tan": np.tan,
    "asin": np.arcsin, "acos": np.arccos, "atan": np.arctan, "atan2": np.arctan2,
    "sinh": np.sinh, "cosh": np.cosh, "tanh": np.tanh, "exp": np.exp, "log": np.log,
    "log10": np.log10, "isnan": np.isnan, "real": np.real, "imag": np.imag, "conj": np.conj,
}

CMP = {"==": operator.eq, "!=": operator.ne, "<": operator.lt, "<=": operator.le,
       ">": operator.gt, ">=": operator.ge}


def _const(v):
    return lambda env: v


def compile_expr(e, bindings):  # noqa: C901
    """-> f(env) ; env maps index / reduction variable names to ints"""
    from pytato.scalar_expr import Reduce, TypeCast
    rec = lambda x: compile_expr(x, bindings)  # noqa: E731
    if isinstance(e, (bool, int, float, complex, np.generic)):
        return _const(e)
    if isinstance(e, p.NaN):
        v = np.nan if e.data_type is None else e.data_type(np.nan)
        return _const(v)
    if isinstance(e, p.Variable):
        name = e.name

        def f_var(env):
            if name in env:
                return env[name]
            if name in bindings:
                a = bindings[name]
                if a.ndim != 0:
                    raise InterpError(f"bare reference to non-scalar binding {name!r} of shape {a.shape}")
                return a[()]
            raise InterpError(f"unbound identifier {name!r}")
        return f_var
    if isinstance(e, p.Subscript):
        if not isinstance(e.aggregate, p.Variable):
            raise InterpError(f"subscript of non-variable {e.aggregate!r}")
        name = e.aggregate.name
        idx = [rec(i) for i in e.index_tuple]

        def f_sub(env):
            if name not in bindings:
                raise InterpError(f"unbound array {name!r}")
            a = bindings[name]
            ii = []
            for k, fi in enumerate(idx):
                v = fi(env)
                if isinstance(v, (float, np.floating, complex, np.complexfloating, bool, np.bool_)):
                    if not float(v).is_integer():
                        raise InterpError(f"non-integer subscript {v!r} into {name!r}")
                v = int(v)
                ii.append(v)
            if len(ii) != a.ndim:
                raise InterpError(f"{name!r}: {len(ii)} subscripts for {a.ndim} axes")
            for k, v in enumerate(ii):
                if not (0 <= v < a.shape[k]):
                    raise OutOfBounds(f"{name}[{ii}] out of bounds for shape {a.shape} (axis {k})")
            return a[tuple(ii)]
        return f_sub
    if isinstance(e, p.Sum):
        cs = [rec(c) for c in e.children]

        def f_sum(env):
            r = cs[0](env)
            for c in cs[1:]:
                r = r + c(env)
            return r
        return f_sum
    if isinstance(e, p.Product):
        cs = [rec(c) for c in e.children]

        def f_prod(env):
            r = cs[0](env)
            for c in cs[1:]:
                r = r * c(env)
            return r
        return f_prod
    if isinstance(e, p.Quotient):
        a, b = rec(e.numerator), rec(e.denominator)
        return lambda env: np.true_divide(a(env), b(env))
    if isinstance(e, p.FloorDiv):
        a, b = rec(e.numerator), rec(e.denominator)
        return lambda env: np.floor_divide(a(env), b(env))
    if isinstance(e, p.Remainder):
        a, b = rec(e.numerator), rec(e.denominator)
        return lambda env: np.remainder(a(env), b(env))
    if isinstance(e, p.Power):
        a, b = rec(e.base), rec(e.exponent)
        return lambda env: np.power(a(env), b(env))
    if isinstance(e, p.Comparison):
        a, b, op = rec(e.left), rec(e.right), CMP[e.operator]
        return lambda env: bool(op(a(env), b(env)))
    if isinstance(e, p.LogicalAnd):
        cs = [rec(c) for c in e.children]
        return lambda env: all(bool(c(env)) for c in cs)
    if isinstance(e, p.LogicalOr):
        cs = [rec(c) for c in e.children]
        return lambda env: any(bool(c(env)) for c in cs)
    if isinstance(e, p.LogicalNot):
        c = rec(e.child)
        return lambda env: not bool(c(env))
    if isinstance(e, (p.BitwiseAnd, p.BitwiseOr, p.BitwiseXor)):
        cs = [rec(c) for c in e.children]
        op = {p.BitwiseAnd: operator.and_, p.BitwiseOr: operator.or_, p.BitwiseXor: operator.xor}[type(e)]

        def f_bit(env):
            r = cs[0](env)
            for c in cs[1:]:
                r = op(r, c(env))
            return r
        return f_bit
    if isinstance(e, p.BitwiseNot):
        c = rec(e.child)
        return lambda env: ~c(env)
    if isinstance(e, p.If):
        c, t, f = rec(e.condition), rec(e.then), rec(e.else_)
        return lambda env: t(env) if bool(c(env)) else f(env)
    if isinstance(e, p.Call):
        if not isinstance(e.function, p.Variable):
            raise InterpError(f"call of non-variable {e.function!r}")
        fname = e.function.name
        if fname == "pytato.zero":
            return _const(0)
        if not fname.startswith("pytato.c99."):
            raise InterpError(f"unknown scalar function {fname!r}")
        fn = C99.get(fname[len("pytato.c99."):])
        if fn is None:
            raise InterpError(f"unknown c99 function {fname!r}")
        ps = [rec(x) for x in e.parameters]
        return lambda env: fn(*[x(env) for x in ps])
    if isinstance(e, TypeCast):
        c = rec(e.inner_expr)
        dt = np.dtype(e.dtype)
        # C-style conversion (wraps for narrowing integer casts), as ndarray.astype does
        return lambda env: np.asarray(c(env)).astype(dt)[()]
    if isinstance(e, Reduce):
        inner = rec(e.inner_expr)
        names = list(e.bounds)
        bnds = [(rec(e.bounds[n][0]), rec(e.bounds[n][1])) for n in names]
        opname = type(e.op).__name__

        def f_red(env):
            ranges = []
            for lo, hi in bnds:
                ranges.append(range(int(lo(env)), int(hi(env))))
            acc = None
            env2 = dict(env)
            for pt in itertools.product(*ranges):
                for n, v in zip(names, pt):
                    env2[n] = v
                v = inner(env2)
                if acc is None:
                    acc = v if opname not in ("AllReductionOperation", "AnyReductionOperation") else bool(v)
                elif opname == "SumReductionOperation":
                    acc = acc + v
                elif opname == "ProductReductionOperation":
                    acc = acc * v
                elif opname == "MaxReductionOperation":
                    acc = v if (v > acc or v != v) and not (acc != acc) else acc
                elif opname == "MinReductionOperation":
                    acc = v if (v < acc or v != v) and not (acc != acc) else acc
                elif opname == "AllReductionOperation":
                    acc = acc and bool(v)
                elif opname == "AnyReductionOperation":
                    acc = acc or bool(v)
                else:
                    raise InterpError(f"unknown reduction {opname}")
            if acc is None:
                neutral = {"SumReductionOperation": 0, "ProductReductionOperation": 1,
                           "AllReductionOperation": True, "AnyReductionOperation": False}
                if opname not in neutral:
                    raise InterpError(f"empty {opname}")
                return neutral[opname]
            return acc
        return f_red
    if isinstance(e, p.Min):
        cs = [rec(c) for c in e.children]
        return lambda env: min(c(env) for c in cs)
    if isinstance(e, p.Max):
        cs = [rec(c) for c in e.children]
        return lambda env: max(c(env) for c in cs)
    raise InterpError(f"unsupported scalar expression node {type(e).__name__}: {e!r}")


def eval_index_lambda(expr, shape, dtype, bindings):
    """bindings: {name: ndarray}; shape: tuple of ints -> ndarray of dtype"""
    with np.errstate(all="ignore"):
        f = compile_expr(expr, bindings)
        out = np.empty(shape, dtype=dtype)
        dtype = np.dtype(dtype)
        names = [f"_{i}" for i in range(len(shape))]
        for pt in itertools.product(*[range(n) for n in shape]):
            env = dict(zip(names, pt))
            v = f(env)
            if dtype.kind not in "c" and isinstance(v, (complex, np.complexfloating)) and v.imag != 0:
                raise InterpError(f"complex value {v!r} for result dtype {dtype}")
            if dtype.kind not in "c" and isinstance(v, (complex, np.complexfloating)):
                v = v.real
            out[pt] = v
        return out
