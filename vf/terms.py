"""Program terms with two interpretations (DESIGN §4.1).

A term is a JSON-able nested list.  `build_pt` calls only pytato's public API;
`eval_np` calls the same-named NumPy function on concrete arrays.  Structurally
identical sub-terms are built once and shared (on both sides); ["dup", k, t]
forces an unshared structural copy on the pytato side.
"""
from __future__ import annotations

import json
import operator

import numpy as np

import vf  # noqa: F401  (sys.path)
from vf import values

BINOPS = {
    "add": operator.add, "sub": operator.sub, "mul": operator.mul,
    "truediv": operator.truediv, "floordiv": operator.floordiv,
    "mod": operator.mod, "pow": operator.pow,
    "and": operator.and_, "or": operator.or_, "xor": operator.xor,
}
CMPOPS = ("equal", "not_equal", "less", "less_equal", "greater", "greater_equal")
LOGICOPS = ("logical_and", "logical_or")
MATHFNS = ("abs", "sqrt", "sin", "cos", "tan", "arcsin", "arccos", "arctan",
           "conj", "sinh", "cosh", "tanh", "exp", "log", "log10", "isnan",
           "real", "imag")
REDOPS = ("sum", "prod", "amax", "amin", "all", "any")
SCALAR_HEADS = ("py", "nps")


class HashSeedTag:
    """user-defined symbolic communication tag whose hash depends on PYTHONHASHSEED"""

    def __init__(self, name):
        self.name = name

    def __hash__(self):
        return hash(("HashSeedTag", self.name))

    def __eq__(self, other):
        return isinstance(other, HashSeedTag) and other.name == self.name

    def __repr__(self):
        return f"HashSeedTag({self.name!r})"

    def __reduce__(self):
        return (HashSeedTag, (self.name,))


def comm_tag(t):
    """decode a JSON-able communication tag: int | str | ["tuple", ...] | ["frozenset", ...] | ["cls", name]"""
    if isinstance(t, list):
        if t[0] == "tuple":
            return tuple(comm_tag(x) for x in t[1:])
        if t[0] == "frozenset":
            return frozenset(comm_tag(x) for x in t[1:])
        if t[0] == "cls":
            return HashSeedTag(t[1])
        raise ValueError(t)
    return t


def tkey(t) -> str:
    return json.dumps(t, sort_keys=True)


def is_scalar_term(t) -> bool:
    return t[0] in SCALAR_HEADS


def scalar_value(t):
    """Python / NumPy scalar denoted by a scalar leaf."""
    if t[0] == "py":
        v = t[1]
        if isinstance(v, dict):
            return complex(v["c"][0], v["c"][1])
        if isinstance(v, str):  # "nan", "inf", "-inf"
            return float(v)
        return v
    if t[0] == "nps":
        v = t[2]
        if isinstance(v, dict):
            v = complex(v["c"][0], v["c"][1])
        if isinstance(v, str):
            v = float(v)
        return np.dtype(t[1]).type(v)
    raise ValueError(t)


def parse_dim(d, sizes):
    """int, or an affine expression string over size-parameter names."""
    if isinstance(d, int):
        return d
    return int(eval(d, {"__builtins__": {}}, dict(sizes)))  # noqa: S307


def subterms(t):
    """direct sub-terms (terms are lists whose head is a str)."""
    out = []

    def rec(x):
        if isinstance(x, list) and x and isinstance(x[0], str) and x[0] in HEADS:
            out.append(x)
        elif isinstance(x, list):
            for y in x:
                rec(y)
    for x in t[1:]:
        rec(x)
    return out


HEADS = {"recv", "send", "ph", "dw", "dwv", "dwalias", "sp", "full", "zeros", "ones", "eye", "arange", "py",
         "nps", "neg", "abs", "lnot", "fn", "bin", "cmp", "logic", "mm", "arctan2",
         "where", "astype", "red", "einsum", "matmul", "dot", "vdot", "stack",
         "concat", "roll", "transpose", "reshape", "expand_dims", "squeeze", "pad",
         "broadcast_to", "index", "csrmm", "zeros_like", "ones_like", "dup", "tag",
         "T", "lpcall", "lpout", "s", "a"}


def all_subterms(t, acc=None, seen=None):
    if acc is None:
        acc, seen = [], set()
    k = tkey(t)
    if k in seen:
        return acc
    seen.add(k)
    for s in subterms(t):
        if s[0] in ("s",):
            continue
        if s[0] == "a":
            all_subterms(s[1], acc, seen)
            continue
        all_subterms(s, acc, seen)
    acc.append(t)
    return acc


def inputs_of(t):
    """{name: (shape, dtype)} of placeholders; shapes may be symbolic."""
    res = {}
    for s in all_subterms(t):
        if s[0] == "ph":
            res[s[1]] = (tuple(s[2]), s[3])
    return res


def size_params_of(t):
    names = set()
    for s in all_subterms(t):
        if s[0] == "sp":
            names.add(s[1])
        if s[0] == "ph":
            for d in s[2]:
                if isinstance(d, str):
                    import re
                    names.update(re.findall(r"[A-Za-z_]\w*", d))
    return sorted(names)


# ---------------------------------------------------------------------------
# deterministic data-wrapper content

_DW_CACHE = {}


def dw_alias(base: np.ndarray, mode: str) -> np.ndarray:
    """views / copies of wrapped data (deduplicate_data_wrappers alphabet)"""
    if mode == "same":
        return base
    if mode == "view":
        return base.view()
    if mode == "copy":
        return base.copy()
    if mode == "T":
        return base.T
    if mode == "rev":
        return base[::-1]
    if mode == "head3":
        return base[:3]
    if mode == "step2":
        return base[::2]
    raise ValueError(mode)


def dw_data(t) -> np.ndarray:
    if t[0] == "dwalias":
        return dw_alias(dw_data(t[1]), t[2])
    k = tkey(t)
    if k not in _DW_CACHE:
        _DW_CACHE[k] = _dw_data(t)
    return _DW_CACHE[k]


def _dw_data(t) -> np.ndarray:
    if t[0] == "dwv":
        return np.array(t[3], dtype=t[2]).reshape(t[4]) if len(t) > 4 else np.array(t[3], dtype=t[2])
    _, key, shape, dtype = t[:4]
    return values.make_input("dw:" + key, tuple(shape), dtype, "ramp")


# ---------------------------------------------------------------------------
# pytato interpretation

class PtBuilder:
    def __init__(self, share=True):
        self.memo = {}
        self.size_params = {}
        self.data = {}       # tkey -> ndarray handed to make_data_wrapper
        self.nodes = []      # (term, pt array) in construction order
        self.share = share
        self.on_node = None  # callback(term, array) -> array  (tag injection)

    def sp(self, name):
        import pytato as pt
        if name not in self.size_params:
            self.size_params[name] = pt.make_size_param(name)
        return self.size_params[name]

    def dim(self, d):
        if isinstance(d, int):
            return d
        env = {n: self.sp(n) for n in _names_in(d)}
        return eval(d, {"__builtins__": {}}, env)  # noqa: S307

    def __call__(self, t):
        if is_scalar_term(t):
            return scalar_value(t)
        k = tkey(t)
        if self.share and k in self.memo:
            return self.memo[k]
        r = self._build(t)
        if self.on_node is not None:
            r = self.on_node(t, r)
        self.memo[k] = r
        self.nodes.append((t, r))
        return r

    def _build(self, t):  # noqa: C901
        import pytato as pt
        h = t[0]
        B = self
        if h == "ph":
            return pt.make_placeholder(t[1], tuple(B.dim(d) for d in t[2]), np.dtype(t[3]))
        if h in ("dw", "dwv"):
            k = tkey(t)
            if k not in self.data:
                self.data[k] = dw_data(t)
            return pt.make_data_wrapper(self.data[k])
        if h == "dwalias":
            B(t[1])
            return pt.make_data_wrapper(dw_alias(self.data[tkey(t[1])], t[2]))
        if h == "sp":
            return B.sp(t[1])
        if h == "full":
            return pt.full(tuple(B.dim(d) for d in t[1]), scalar_value(t[2]) if isinstance(t[2], list) else t[2],
                           None if t[3] is None else np.dtype(t[3]))
        if h == "zeros":
            return pt.zeros(tuple(B.dim(d) for d in t[1]), np.dtype(t[2]))
        if h == "ones":
            return pt.ones(tuple(B.dim(d) for d in t[1]), np.dtype(t[2]))
        if h == "eye":
            if t[4] is None:
                return pt.eye(t[1], t[2], t[3])
            return pt.eye(t[1], t[2], t[3], np.dtype(t[4]))
        if h == "arange":
            return pt.arange(*t[1], dtype=np.dtype(t[2]))
        if h == "neg":
            return -B(t[1])
        if h == "abs":
            return abs(B(t[1]))
        if h == "lnot":
            return pt.logical_not(B(t[1]))
        if h == "fn":
            return getattr(pt, t[1])(B(t[2]))
        if h == "bin":
            return BINOPS[t[1]](B(t[2]), B(t[3]))
        if h == "cmp":
            return getattr(pt, t[1])(B(t[2]), B(t[3]))
        if h == "logic":
            return getattr(pt, t[1])(B(t[2]), B(t[3]))
        if h == "mm":
            return getattr(pt, t[1])(B(t[2]), B(t[3]))
        if h == "arctan2":
            return pt.arctan2(B(t[1]), B(t[2]))
        if h == "where":
            return pt.where(B(t[1]), B(t[2]), B(t[3]))
        if h == "astype":
            return B(t[1]).astype(np.dtype(t[2]))
        if h == "red":
            ax = t[3]
            if isinstance(ax, list):
                ax = tuple(ax)
            return getattr(pt, t[1])(B(t[2]), axis=ax)
        if h == "einsum":
            return pt.einsum(t[1], *[B(a) for a in t[2:]])
        if h == "matmul":
            return B(t[1]) @ B(t[2])
        if h == "dot":
            return pt.dot(B(t[1]), B(t[2]))
        if h == "vdot":
            return pt.vdot(B(t[1]), B(t[2]))
        if h == "stack":
            return pt.stack([B(a) for a in t[2:]], axis=t[1])
        if h == "concat":
            return pt.concatenate([B(a) for a in t[2:]], axis=t[1])
        if h == "roll":
            return pt.roll(B(t[1]), t[2], t[3])
        if h == "transpose":
            return pt.transpose(B(t[1]), None if t[2] is None else tuple(t[2]))
        if h == "T":
            return B(t[1]).T
        if h == "reshape":
            ns = t[2] if isinstance(t[2], int) else tuple(t[2])
            return pt.reshape(B(t[1]), ns, order=t[3])
        if h == "expand_dims":
            ax = t[2]
            return pt.expand_dims(B(t[1]), tuple(ax) if isinstance(ax, list) else ax)
        if h == "squeeze":
            ax = t[2]
            if ax is None:
                return pt.squeeze(B(t[1]))
            return pt.squeeze(B(t[1]), tuple(ax) if isinstance(ax, list) else (ax,))
        if h == "pad":
            return pt.pad(B(t[1]), _pad_arg(t[2]), constant_values=_pad_arg(t[3]))
        if h == "broadcast_to":
            return pt.broadcast_to(B(t[1]), tuple(B.dim(d) for d in t[2]))
        if h == "index":
            return B(t[1])[self._index(t[2])]
        if h == "csrmm":
            mat = pt.make_csr_matrix(tuple(t[1]), B(t[2]), B(t[3]), B(t[4]))
            return mat @ B(t[5])
        if h == "zeros_like":
            return pt.zeros_like(B(t[1]))
        if h == "ones_like":
            return pt.ones_like(B(t[1]))
        if h == "dup":
            sub = PtBuilder(share=self.share)
            sub.size_params = self.size_params
            sub.data = self.data   # data wrappers keep identity semantics
            sub.memo = {k: v for k, v in self.memo.items() if _is_input_key(k)}
            sub.on_node = self.on_node
            return sub(t[2])
        if h == "tag":
            return apply_tag(B(t[2]), t[1])
        if h == "recv":
            return pt.make_distributed_recv(src_rank=t[1], comm_tag=comm_tag(t[2]), shape=tuple(t[3]), dtype=np.dtype(t[4]))
        if h == "send":
            return pt.staple_distributed_send(B(t[1]), dest_rank=t[2], comm_tag=comm_tag(t[3]), stapled_to=B(t[4]))
        if h == "lpcall":
            from vf import lpkernels
            return lpkernels.build_pt(self, t)
        if h == "lpout":
            return B(t[1])[t[2]]
        raise ValueError(f"unknown term head {h!r}")

    def _index(self, idx):
        out = []
        for i in idx:
            if isinstance(i, int):
                out.append(i)
            elif i == "...":
                out.append(Ellipsis)
            elif i is None:
                out.append(None)
            elif i[0] == "s":
                out.append(slice(i[1], i[2], i[3]))
            elif i[0] == "a":
                out.append(self(i[1]))
            elif i[0] == "npi":     # numpy integer scalar index
                out.append(np.dtype(i[1]).type(i[2]))
            else:
                raise ValueError(i)
        return tuple(out)


def _is_input_key(k):
    return k.startswith('["ph"') or k.startswith('["dw') or k.startswith('["sp"')


def _names_in(d):
    import re
    return sorted(set(re.findall(r"[A-Za-z_]\w*", d)))


def _pad_arg(a):
    if isinstance(a, list):
        if a and isinstance(a[0], list):
            return [tuple(x) for x in a]
        return tuple(a)
    return a


def apply_tag(ary, spec):
    from vf import tagdefs
    return tagdefs.apply(ary, spec)


# ---------------------------------------------------------------------------
# NumPy interpretation

class NpEval:
    """Evaluates a term with NumPy.  Tracks the magnitude of the largest finite
    intermediate (`scale`), the largest reduction length (`nred`) and whether an
    excluded situation (integer overflow, integer division by zero, …) occurred
    (`excluded` is then a reason string)."""

    def __init__(self, inputs, sizes=None):
        self.inputs = inputs
        self.sizes = sizes or {}
        self.memo = {}
        self.scale = 0.0
        self.nred = 1
        self.excluded = None
        self.warn = None
        self.eps = 0.0   # eps of the least precise floating dtype met anywhere
        self.eps_computed = 0.0   # ... among the results of operations only (NumPy computes each operation in its result dtype)
        self.nonfinite = False  # an intermediate of the NumPy evaluation is inf/NaN
        self.recv_resolver = None   # (src_rank, tag) -> ndarray, for multi-rank programs

    def note(self, a):
        a = np.asarray(a)
        if a.dtype.kind in "fc":
            self.eps = max(self.eps, float(np.finfo(a.dtype).eps))
            if a.size and not np.all(np.isfinite(a)):
                self.nonfinite = True
        if a.size and a.dtype.kind in "fciu":
            with np.errstate(all="ignore"):
                m = np.abs(a[np.isfinite(a)]) if a.dtype.kind in "fc" else np.abs(a.astype(np.float64))
                if m.size:
                    self.scale = max(self.scale, float(m.max()))
        return a

    def exclude(self, why):
        if self.excluded is None:
            self.excluded = why

    def _int_product_sum_check(self, a, b, fn, what):
        """sum of products of integers: outside the fragment when it can overflow the (narrow) result type"""
        a, b = np.asarray(a), np.asarray(b)
        if np.result_type(a, b).kind in "iub" and a.size and b.size:
            with np.errstate(all="ignore"):
                f = np.asarray(fn(np.abs(a.astype(np.float64)), np.abs(b.astype(np.float64))))
            if f.size and np.max(f) >= 2.0 ** 30:
                self.exclude("integer overflow in " + what)

    def _complex_negation_check(self, x, direct, what):
        """pymbolic spells -z as (-1)*z and a-b as a+(-1)*b; for complex z NumPy itself gives the two spellings
        different results at signed zeros and non-finite components (complex multiplication by -1+0j): a singular
        point, not decided"""
        x = np.asarray(x)
        if x.dtype.kind != "c" or not x.size:
            return
        with np.errstate(all="ignore"):
            alt = np.asarray(what(x))
        d = np.asarray(direct)

        def same(u, v):
            return np.array_equal(u, v, equal_nan=True) and np.array_equal(np.signbit(u), np.signbit(v))
        if not (same(d.real, alt.real) and same(d.imag, alt.imag)):
            self.exclude("complex negation/subtraction at a signed zero or non-finite component (NumPy's -z and (-1)*z differ)")

    def __call__(self, t):
        if is_scalar_term(t):
            return scalar_value(t)
        k = tkey(t)
        if k in self.memo:
            return self.memo[k]
        with np.errstate(all="ignore"):
            r = self._eval(t)
        if not isinstance(r, dict):
            r = self.note(r)
            if t[0] not in ("ph", "dw", "dwv", "dwalias", "sp") and np.asarray(r).dtype.kind in "fc":
                self.eps_computed = max(self.eps_computed, float(np.finfo(np.asarray(r).dtype).eps))
        self.memo[k] = r
        return r

    def dim(self, d):
        return parse_dim(d, self.sizes)

    def _intcheck(self, opname, a, b, res):
        """integer results: detect wraparound by recomputing in float64."""
        res = np.asarray(res)
        if res.dtype.kind in "iu":
            fa = np.asarray(a).astype(np.float64) if not isinstance(a, (complex,)) else a
            fb = np.asarray(b).astype(np.float64)
            with np.errstate(all="ignore"):
                f = BINOPS[opname](fa, fb) if opname in ("add", "sub", "mul", "pow") else None
            if f is not None and f.size and np.abs(f).max() >= 2.0 ** (8 * res.dtype.itemsize - 2):
                self.exclude("integer overflow")

    def _eval(self, t):  # noqa: C901
        h = t[0]
        E = self
        if h == "ph":
            a = self.inputs[t[1]]
            exp = tuple(E.dim(d) for d in t[2])
            assert a.shape == exp and a.dtype == np.dtype(t[3]), (t, a.shape, a.dtype)
            return a
        if h in ("dw", "dwv", "dwalias"):
            return dw_data(t)
        if h == "sp":
            return np.asarray(self.sizes[t[1]])
        if h == "full":
            v = scalar_value(t[2]) if isinstance(t[2], list) else t[2]
            return np.full(tuple(E.dim(d) for d in t[1]), v, None if t[3] is None else np.dtype(t[3]))
        if h == "zeros":
            return np.zeros(tuple(E.dim(d) for d in t[1]), np.dtype(t[2]))
        if h == "ones":
            return np.ones(tuple(E.dim(d) for d in t[1]), np.dtype(t[2]))
        if h == "eye":
            if t[4] is None:
                return np.eye(t[1], t[2], t[3])
            return np.eye(t[1], t[2], t[3], dtype=np.dtype(t[4]))
        if h == "arange":
            return np.arange(*t[1], dtype=np.dtype(t[2]))
        if h == "neg":
            x = E(t[1])
            r = -x
            self._complex_negation_check(x, r, lambda z: -1 * z)
            return r
        if h == "abs":
            return abs(E(t[1]))
        if h == "lnot":
            return np.logical_not(E(t[1]))
        if h == "fn":
            return getattr(np, t[1])(E(t[2]))
        if h == "bin":
            a, b = E(t[2]), E(t[3])
            op = t[1]
            ra = np.result_type(a, b) if True else None
            if op in ("floordiv", "mod"):
                if ra.kind in "iub" and np.any(np.asarray(b) == 0):
                    self.exclude("integer division by zero")
                if ra.kind in "f":
                    # floor-division / modulo of floats: loopy emits floor(a/b) /
                    # fmod-style code whose behaviour for inf/nan/zero divisors is
                    # not pinned down; keep to finite non-zero divisors
                    if (np.any(np.asarray(b) == 0) or not np.all(np.isfinite(np.asarray(b, dtype=np.float64)))
                            or not np.all(np.isfinite(np.asarray(a, dtype=np.float64)))):
                        self.exclude("float floordiv/mod by zero or of non-finite")
            if op == "pow" and ra.kind in "iub":
                if np.any(np.asarray(b) < 0):
                    self.exclude("integer power with negative exponent")
                    return np.zeros(np.broadcast_shapes(np.shape(a), np.shape(b)), ra)
            if op == "pow":
                an, bn = np.asarray(a), np.asarray(b)
                if np.any(an == 0) and np.any(bn.real < 0 if bn.dtype.kind == "c" else bn < 0):
                    self.exclude("0 ** negative (sign of the infinity depends on the sign of zero)")
                if bn.dtype.kind in "iu" and bn.size:
                    self.nred = max(self.nred, int(np.abs(bn).max()))
            r = BINOPS[op](a, b)
            if op == "sub" and ra.kind == "c":
                an = np.asarray(a)
                self._complex_negation_check(np.asarray(b).astype(ra), r, lambda z: an + (-1) * z)
            if op in ("add", "sub", "mul", "pow"):
                self._intcheck(op, a, b, r)
            if op == "truediv" and np.any(np.asarray(b) == 0):
                # x/0: the sign of the infinity depends on the sign of the zero,
                # which the comparison rule (-0.0 == 0.0) does not pin down
                self.exclude("division by zero")
            if op == "pow" and ra.kind == "c" and not np.all(np.isfinite(np.asarray(r))):
                self.exclude("complex power overflowing to a non-finite value (NaN pattern of the overflow is implementation-defined)")
            if op == "pow" and (ra.kind == "c") and (np.any(np.asarray(a) == 0)
                                                     or not np.all(np.isfinite(np.asarray(a, dtype=np.complex128)))
                                                     or not np.all(np.isfinite(np.asarray(b, dtype=np.complex128)))):
                self.exclude("complex power at a singular point (0 or non-finite base/exponent)")
            return r
        if h == "cmp":
            return getattr(np, t[1])(E(t[2]), E(t[3]))
        if h == "logic":
            return getattr(np, t[1])(E(t[2]), E(t[3]))
        if h == "mm":
            return getattr(np, t[1])(E(t[2]), E(t[3]))
        if h == "arctan2":
            a, b = E(t[1]), E(t[2])
            if np.any(np.asarray(a) == 0) or np.any(np.asarray(b) == 0):
                self.exclude("arctan2 with a zero operand (result depends on the sign of zero)")
            return np.arctan2(a, b)
        if h == "where":
            return np.where(E(t[1]), E(t[2]), E(t[3]))
        if h == "astype":
            return np.asarray(E(t[1])).astype(np.dtype(t[2]))
        if h == "red":
            a = np.asarray(E(t[2]))
            ax = t[3]
            if isinstance(ax, list):
                ax = tuple(ax)
            axes = range(a.ndim) if ax is None else ([ax] if isinstance(ax, int) else ax)
            n = 1
            for i in axes:
                n *= a.shape[i]
            self.nred = max(self.nred, n)
            r = getattr(np, t[1])(a, axis=ax)
            if t[1] in ("sum", "prod"):
                self._sum_operands_finite(a)
            if t[1] in ("amax", "amin") and a.dtype.kind in "fc" and np.isnan(a).any():
                self.exclude("NaN in max/min reduction (pytato documents NaN propagation only for maximum/minimum)")
            if t[1] in ("sum", "prod") and a.dtype.kind in "iub":
                with np.errstate(all="ignore"):
                    f = getattr(np, t[1])(np.abs(a.astype(np.float64)), axis=ax)
                lim = 2.0 ** (8 * max(a.dtype.itemsize, 4) - 2) if a.dtype.kind != "b" else 2.0 ** 30
                if np.asarray(f).size and np.max(f) >= lim:
                    self.exclude("integer overflow in reduction")
            return r
        if h == "einsum":
            args = [np.asarray(E(a)) for a in t[2:]]
            self._sum_operands_finite(*args)
            self._note_einsum_nred(t[1], args)
            r = np.einsum(t[1], *args)
            if r.dtype.kind in "iu":
                with np.errstate(all="ignore"):
                    f = np.einsum(t[1], *[np.abs(a.astype(np.float64)) for a in args])
                if np.asarray(f).size and np.max(f) >= 2.0 ** 30:
                    self.exclude("integer overflow in einsum")
            return r
        if h == "matmul":
            a, b = np.asarray(E(t[1])), np.asarray(E(t[2]))
            self._sum_operands_finite(a, b)
            self.nred = max(self.nred, a.shape[-1] if a.ndim else 1)
            self._int_product_sum_check(a, b, lambda x, y: x @ y, "matmul")
            return a @ b
        if h == "dot":
            a, b = E(t[1]), E(t[2])
            self._sum_operands_finite(a, b)
            if np.ndim(a):
                self.nred = max(self.nred, np.shape(a)[-1])
            self._int_product_sum_check(a, b, np.dot, "dot")
            return np.dot(a, b)
        if h == "vdot":
            a, b = E(t[1]), E(t[2])
            self._sum_operands_finite(a, b)
            self.nred = max(self.nred, np.size(a))
            self._int_product_sum_check(a, b, np.vdot, "vdot")
            return np.vdot(a, b)
        if h == "stack":
            return np.stack([E(a) for a in t[2:]], axis=t[1])
        if h == "concat":
            return np.concatenate([E(a) for a in t[2:]], axis=t[1])
        if h == "roll":
            return np.roll(E(t[1]), t[2], t[3])
        if h == "transpose":
            return np.transpose(E(t[1]), None if t[2] is None else tuple(t[2]))
        if h == "T":
            return np.asarray(E(t[1])).T
        if h == "reshape":
            ns = t[2] if isinstance(t[2], int) else tuple(t[2])
            return np.reshape(E(t[1]), ns, order=t[3])
        if h == "expand_dims":
            ax = t[2]
            return np.expand_dims(E(t[1]), tuple(ax) if isinstance(ax, list) else ax)
        if h == "squeeze":
            ax = t[2]
            if ax is None:
                return np.squeeze(E(t[1]))
            return np.squeeze(E(t[1]), tuple(ax) if isinstance(ax, list) else (ax,))
        if h == "pad":
            a = np.asarray(E(t[1]))
            return np.pad(a, _pad_arg(t[2]), constant_values=_pad_arg(t[3]))
        if h == "broadcast_to":
            return np.broadcast_to(E(t[1]), tuple(E.dim(d) for d in t[2]))
        if h == "index":
            a = np.asarray(E(t[1]))
            idx = []
            for i in t[2]:
                if isinstance(i, int):
                    idx.append(i)
                elif i == "...":
                    idx.append(Ellipsis)
                elif i is None:
                    idx.append(None)
                elif i[0] == "s":
                    idx.append(slice(i[1], i[2], i[3]))
                elif i[0] == "a":
                    idx.append(np.asarray(E(i[1])))
                elif i[0] == "npi":
                    idx.append(np.dtype(i[1]).type(i[2]))
            return a[tuple(idx)]
        if h == "csrmm":
            nr, nc = t[1]
            vals, cols, rs = (np.asarray(E(x)) for x in (t[2], t[3], t[4]))
            x = np.asarray(E(t[5]))
            self._sum_operands_finite(vals, x)
            dense = np.zeros((nr, nc), vals.dtype)
            for r in range(nr):
                for j in range(int(rs[r]), int(rs[r + 1])):
                    dense[r, int(cols[j])] += vals[j]
            self.nred = max(self.nred, nc)
            return dense @ x
        if h == "zeros_like":
            return np.zeros_like(E(t[1]))
        if h == "ones_like":
            return np.ones_like(E(t[1]))
        if h == "dup":
            return E(t[2])
        if h == "tag":
            return E(t[2])
        if h == "recv":
            return np.asarray(self.recv_resolver(t[1], t[2]))
        if h == "send":
            # the value of a send holder is its passthrough data; what it transmits is evaluated when (and only when)
            # the matching receive asks for it
            return E(t[4])
        if h == "lpcall":
            from vf import lpkernels
            return lpkernels.eval_np(self, t)
        if h == "lpout":
            return E(t[1])[t[2]]
        raise ValueError(f"unknown term head {h!r}")

    def _sum_operands_finite(self, *arrs):
        """inf/NaN operands of a sum-type reduction: inf - inf, 0 * inf make the result
        depend on evaluation order and on which zero terms are skipped (sparse / empty sums)"""
        for a in arrs:
            a = np.asarray(a)
            if a.dtype.kind in "fc" and a.size and not np.all(np.isfinite(a)):
                self.exclude("non-finite operand of a sum-type reduction (order dependent)")

    def _note_einsum_nred(self, spec, args):
        ins, out = spec.replace(" ", "").split("->") if "->" in spec else (spec, None)
        sizes = {}
        for s, a in zip(ins.split(","), args):
            for c, n in zip(s, a.shape):
                sizes[c] = max(sizes.get(c, 1), n)
        n = 1
        for c, m in sizes.items():
            if out is not None and c not in out:
                n *= m
        self.nred = max(self.nred, n)


def make_inputs(term_or_terms, valuation, sizes=None):
    """{name: ndarray} for all placeholders of the term(s)."""
    sizes = sizes or {}
    terms = [term_or_terms] if (term_or_terms and isinstance(term_or_terms[0], str)) else term_or_terms
    res = {}
    for t in terms:
        for name, (shape, dtype) in inputs_of(t).items():
            cshape = tuple(parse_dim(d, sizes) for d in shape)
            res[name] = values.make_input(name, cshape, dtype, valuation)
    return res


def np_shape_dtype(t, sizes=None):
    """(shape, dtype) NumPy gives the term on zero-like inputs, or raises."""
    inputs = {}
    for name, (shape, dtype) in inputs_of(t).items():
        cshape = tuple(parse_dim(d, sizes or {}) for d in shape)
        inputs[name] = np.zeros(cshape, dtype)
    r = np.asarray(NpEval(inputs, sizes)(t))
    return r.shape, r.dtype
