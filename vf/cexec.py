"""loopy plain-C target glue + own ctypes invoker (DESIGN §1, §4.6).

pytato's TranslationUnit is taken unchanged; harness-side additions are only a
symbol mangler / preamble for libc constants that loopy's plain C target does
not know (INT_MAX, HUGE_VAL, …).  Outputs and global temporaries are allocated
here and pre-filled with a sentinel so that an element the kernel never writes
is visible.
"""
from __future__ import annotations

import ctypes
import hashlib
import os
import re
import subprocess
import tempfile

import numpy as np

import vf  # noqa: F401
import loopy as lp
from loopy.types import NumpyType
from pytato.target.loopy import LoopyTarget


class VerifCTarget(LoopyTarget):
    def get_loopy_target(self):
        return lp.CTarget()

    def bind_program(self, program, bound_arguments):
        return CBound(program, dict(bound_arguments))


class CBound:
    def __init__(self, program, bound_arguments):
        self.program = program
        self.bound_arguments = bound_arguments
        self._compiled = None

    @property
    def kernel(self):
        return self.program.default_entrypoint

    def compiled(self):
        if self._compiled is None:
            self._compiled = compile_tunit(self.program)
        return self._compiled

    def __call__(self, **kwargs):
        args = dict(self.bound_arguments)
        args.update(kwargs)
        return self.compiled()(**args)


def _mangler(kernel, name):
    if name in ("HUGE_VAL", "INFINITY"):
        return NumpyType(np.dtype(np.float64)), name
    if name in ("INT_MAX", "INT_MIN"):
        return NumpyType(np.dtype(np.int32)), name
    if name in ("LONG_MAX", "LONG_MIN"):
        return NumpyType(np.dtype(np.int64)), name
    if name in ("FLT_MAX",):
        return NumpyType(np.dtype(np.float32)), name
    return None


def _preamble(pinfo):
    yield ("00_verif_limits",
           "#include <limits.h>\n#include <math.h>\n#include <float.h>\n#include <stdbool.h>\n"
           "#include <complex.h>\n#include <stdint.h>\n")


_CTYPES = {
    "char": ctypes.c_int8, "signed char": ctypes.c_int8, "unsigned char": ctypes.c_uint8,
    "short": ctypes.c_int16, "unsigned short": ctypes.c_uint16,
    "int": ctypes.c_int32, "unsigned int": ctypes.c_uint32, "unsigned": ctypes.c_uint32,
    "long": ctypes.c_int64, "unsigned long": ctypes.c_uint64,
    "long long": ctypes.c_int64, "unsigned long long": ctypes.c_uint64,
    "float": ctypes.c_float, "double": ctypes.c_double, "bool": ctypes.c_bool,
    "int8_t": ctypes.c_int8, "uint8_t": ctypes.c_uint8, "int16_t": ctypes.c_int16,
    "uint16_t": ctypes.c_uint16, "int32_t": ctypes.c_int32, "uint32_t": ctypes.c_uint32,
    "int64_t": ctypes.c_int64, "uint64_t": ctypes.c_uint64,
}


class CompileError(Exception):
    pass


def scratch_dir():
    d = os.environ.get("VERIF_SCRATCH")
    if not d:
        d = tempfile.mkdtemp(prefix="ptv-", dir="/var/tmp")
        os.environ["VERIF_SCRATCH"] = d
        import atexit
        import shutil
        atexit.register(shutil.rmtree, d, ignore_errors=True)
    return d


_so_cache = {}


import contextlib


@contextlib.contextmanager
def c_precedence_printer():
    """Diagnostic mode only: make loopy's C expression printer parenthesise
    every nested binary sub-expression.  pymbolic's printer uses *Python*
    operator precedence; C differs for nested comparisons (a < b < c) and for
    bitwise operators under comparisons (a ^ b <= c).  Used to attribute a wrong
    value to that third-party defect instead of to pytato."""
    from loopy.target.c.codegen.expression import CExpressionToCodeMapper as M
    from pymbolic.mapper.stringifier import PREC_NONE
    orig = M.parenthesize_if_needed

    def always(self, s, enclosing_prec, my_prec):
        if enclosing_prec > PREC_NONE:
            return f"({s})"
        return s
    M.parenthesize_if_needed = always
    try:
        yield
    finally:
        M.parenthesize_if_needed = orig


def device_code(t_unit) -> str:
    k = t_unit.default_entrypoint
    k = lp.register_symbol_manglers(k, [_mangler])
    k = lp.register_preamble_generators(k, [_preamble])
    t_unit = t_unit.with_kernel(k)
    code = lp.generate_code_v2(t_unit).device_code()
    # loopy 2025.2 plain-C target emits "static inline static int isnani32(...)"
    # for isnan of an integer-typed expression (its own preamble bug)
    return code.replace("static inline static ", "static inline ")


def compile_tunit(t_unit):
    code = device_code(t_unit)
    return CKernel(t_unit, code)


# offset value-argument loopy adds for offset=auto arrays (made unique with a numeric suffix
# when the plain name is taken)
_OFFSET_RE = re.compile(r"^(.*)_offset(_\d+)?$")
SENT_INT = -77
SENT_FLOAT = -7.7777e33


class CKernel:
    def __init__(self, t_unit, code):
        self.t_unit = t_unit
        self.kernel = t_unit.default_entrypoint
        self.code = code
        name = self.kernel.name
        m = re.search(r"void\s+" + re.escape(name) + r"\s*\(([^)]*)\)\s*\{", code)
        if m is None:
            raise CompileError("cannot find kernel signature in generated C:\n" + code)
        self.params = []  # (name, is_pointer, ctype)
        argtxt = m.group(1).strip()
        if argtxt and argtxt != "void":
            for a in argtxt.split(","):
                a = a.strip()
                is_ptr = "*" in a
                nm = re.search(r"([A-Za-z_]\w*)\s*$", a).group(1)
                ty = a[: a.rfind(nm)]
                ty = ty.replace("const", "").replace("__restrict__", "").replace("*", "").strip()
                ty = " ".join(ty.split())
                if not is_ptr and ty not in _CTYPES:
                    raise CompileError(f"unknown C type {ty!r} in signature: {a!r}")
                self.params.append((nm, is_ptr, _CTYPES.get(ty)))
        h = hashlib.md5(code.encode()).hexdigest()
        if h in _so_cache:
            self.lib = _so_cache[h]
        else:
            d = scratch_dir()
            src = os.path.join(d, f"k{os.getpid()}_{h}.c")
            so = os.path.join(d, f"k{os.getpid()}_{h}.so")
            with open(src, "w") as f:
                f.write(code)
            r = subprocess.run(["gcc", "-O0", "-fwrapv", "-shared", "-fPIC", "-w", "-o", so, src, "-lm"],
                               capture_output=True, text=True)
            if r.returncode != 0:
                raise CompileError("gcc failed:\n" + r.stderr[-2000:] + "\n" + code)
            self.lib = ctypes.CDLL(so)
            os.unlink(src)
            os.unlink(so)  # mapping stays valid after unlink
            if len(_so_cache) < 4096:
                _so_cache[h] = self.lib
        self.fn = getattr(self.lib, name)
        self.fn.restype = None

    def _eval_shape(self, shape, env):
        from pymbolic.mapper.evaluator import evaluate
        out = []
        for s in shape:
            out.append(int(evaluate(s, env)) if not isinstance(s, (int, np.integer)) else int(s))
        return tuple(out)

    def __call__(self, **kwargs):
        """returns {output name: ndarray}; also self.last_temps for inspection"""
        k = self.kernel
        arg_dict = k.arg_dict
        env = {}
        for a in k.args:
            if isinstance(a, lp.ValueArg) and a.name in kwargs:
                env[a.name] = int(kwargs[a.name]) if np.dtype(a.dtype.numpy_dtype).kind in "iu" else kwargs[a.name]
        outputs = {}
        keep = []
        cargs = []
        used = set()
        for nm, is_ptr, cty in self.params:
            if nm in arg_dict:
                a = arg_dict[nm]
                if isinstance(a, lp.ValueArg):
                    if nm.endswith("_offset") and nm not in kwargs:
                        cargs.append(cty(0))
                        continue
                    if nm not in kwargs:
                        raise TypeError(f"missing value argument {nm!r}")
                    used.add(nm)
                    cargs.append(cty(kwargs[nm]))
                    continue
                dt = a.dtype.numpy_dtype
                shape = self._eval_shape(a.shape, env)
                if a.is_output and nm not in kwargs:
                    buf = _sentinel(shape, dt)
                    outputs[nm] = buf
                else:
                    if nm not in kwargs:
                        raise TypeError(f"missing array argument {nm!r}")
                    used.add(nm)
                    v = np.asarray(kwargs[nm])
                    if v.shape != shape:
                        raise TypeError(f"argument {nm!r}: shape {v.shape} does not match declared {shape}")
                    if v.dtype != dt:
                        raise TypeError(f"argument {nm!r}: dtype {v.dtype} does not match declared {dt}")
                    buf = np.ascontiguousarray(v).copy()
                    if a.is_output:
                        outputs[nm] = buf
            elif nm in k.temporary_variables:
                tv = k.temporary_variables[nm]
                shape = self._eval_shape(tv.shape, env)
                buf = _sentinel(shape, tv.dtype.numpy_dtype)
            elif (not is_ptr and _OFFSET_RE.match(nm)
                    and _OFFSET_RE.match(nm).group(1) in arg_dict):
                # offset value-argument loopy adds for offset=auto arrays
                cargs.append(cty(0))
                continue
            else:
                raise CompileError(f"signature parameter {nm!r} is neither an argument nor a temporary")
            if buf.size == 0:
                real = np.zeros(1, buf.dtype)
                keep.append(real)
                cargs.append(real.ctypes.data_as(ctypes.c_void_p))
            else:
                keep.append(buf)
                cargs.append(buf.ctypes.data_as(ctypes.c_void_p))
        # arguments loopy dropped from the signature
        for a in k.args:
            if isinstance(a, lp.ArrayArg) and a.is_output and a.name not in outputs:
                if a.name in kwargs:
                    outputs[a.name] = np.asarray(kwargs[a.name]).copy()
                else:
                    outputs[a.name] = _sentinel(self._eval_shape(a.shape, env), a.dtype.numpy_dtype)
        self.unused_kwargs = sorted(set(kwargs) - used - set(outputs))
        self.fn(*cargs)
        return outputs


def _sentinel(shape, dt):
    dt = np.dtype(dt)
    if dt.kind == "b":
        return np.ones(shape, dt)
    if dt.kind in "iu":
        return np.full(shape, SENT_INT if dt.kind == "i" else 199, dt)
    if dt.kind == "f":
        return np.full(shape, SENT_FLOAT, dt)
    return np.full(shape, SENT_FLOAT + 1j * SENT_FLOAT, dt)


def generate_and_run(outputs, inputs, *, function_name="_pt_kernel", **gl_kwargs):
    """pt.generate_loopy(outputs, VerifCTarget) and one execution."""
    import pytato as pt
    bp = pt.generate_loopy(outputs, target=VerifCTarget(), function_name=function_name, **gl_kwargs)
    return bp, bp(**inputs)
