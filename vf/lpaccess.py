"""Bounded exhaustive check of array accesses in a loopy kernel (C11, DESIGN §5).

For every instruction and every subscript in it (substitution rules expanded)
whose index depends only on inames, size parameters and integer constants, all
integer points of the iname domain (within- and reduction inames; reduction
bound temporaries resolved by evaluating their defining assignments) are
enumerated for every size-parameter valuation of the scope, path conditions of
enclosing conditionals are evaluated, and 0 <= index_d < shape_d is checked.

islpy is used only to *enumerate the integer points* of a domain whose
parameters have been fixed — never to decide anything symbolically.
"""
from __future__ import annotations

import itertools

import numpy as np

import islpy as isl
import loopy as lp
import pymbolic.primitives as p
from loopy.symbolic import Reduction, TypeCast as LpTypeCast


class DataDependent(Exception):
    """value depends on array contents"""


class AccessViolation(Exception):
    pass


class Unknown(Exception):
    pass


def _points(dom, inames, env):
    """all integer points of `dom` projected on `inames` with parameters fixed from env"""
    inames = list(inames)
    if not inames:
        return [()]
    # fix parameters
    space = dom.get_space()
    for i in range(dom.dim(isl.dim_type.param)):
        name = dom.get_dim_name(isl.dim_type.param, i)
        if name not in env:
            raise Unknown(f"domain parameter {name!r} has no value")
        dom = dom.fix_val(isl.dim_type.param, i, isl.Val(int(env[name])))
    # project out other set dims
    names = [dom.get_dim_name(isl.dim_type.set, i) for i in range(dom.dim(isl.dim_type.set))]
    for n in names:
        if n not in inames:
            idx = [dom.get_dim_name(isl.dim_type.set, i) for i in range(dom.dim(isl.dim_type.set))].index(n)
            dom = dom.project_out(isl.dim_type.set, idx, 1)
    names = [dom.get_dim_name(isl.dim_type.set, i) for i in range(dom.dim(isl.dim_type.set))]
    pts = []

    def cb(pt):
        vals = {n: pt.get_coordinate_val(isl.dim_type.set, i).to_python() for i, n in enumerate(names)}
        pts.append(tuple(vals[n] for n in inames))
    isl.Set.from_basic_set(dom).foreach_point(cb) if isinstance(dom, isl.BasicSet) else dom.foreach_point(cb)
    del space
    return pts


class Checker:
    def __init__(self, t_unit):
        t_unit = lp.expand_subst(t_unit) if t_unit.default_entrypoint.substitutions else t_unit
        self.knl = t_unit.default_entrypoint
        self.assign = {}   # temporary name -> [instructions assigning the bare variable]
        for insn in self.knl.instructions:
            if isinstance(insn, lp.Assignment) and isinstance(insn.assignee, p.Variable):
                self.assign.setdefault(insn.assignee.name, []).append(insn)
        self.stats = {"sites": 0, "points": 0, "checked_accesses": 0, "data_dependent_accesses": 0,
                      "guarded_out": 0, "instructions": 0}
        self.violations = []

    # ---- shapes
    def shape_of(self, name, env):
        k = self.knl
        if name in k.arg_dict:
            shp = k.arg_dict[name].shape
        elif name in k.temporary_variables:
            shp = k.temporary_variables[name].shape
        else:
            raise Unknown(f"subscripted name {name!r} is neither argument nor temporary")
        if shp is None:
            raise Unknown(f"no shape for {name!r}")
        return tuple(int(self.ev(s, env)) for s in shp)

    def is_array(self, name):
        k = self.knl
        if name in k.arg_dict:
            return isinstance(k.arg_dict[name], lp.ArrayArg)
        if name in k.temporary_variables:
            return True
        return False

    # ---- scalar evaluation (index / bound / condition expressions)
    def ev(self, e, env):  # noqa: C901
        if isinstance(e, (int, np.integer)):
            return int(e)
        if isinstance(e, (bool, np.bool_)):
            return bool(e)
        if isinstance(e, (float, np.floating, complex, np.complexfloating)):
            raise DataDependent("floating constant")
        if isinstance(e, p.Variable):
            if e.name in env:
                return env[e.name]
            if e.name in self.assign:
                return self.temp_value(e.name, env)
            if e.name in self.knl.arg_dict and isinstance(self.knl.arg_dict[e.name], lp.ValueArg):
                raise Unknown(f"value argument {e.name!r} has no valuation")
            if self.is_array(e.name):
                raise DataDependent(e.name)
            raise Unknown(f"unbound name {e.name!r}")
        if isinstance(e, p.Subscript):
            raise DataDependent("array read")
        if isinstance(e, p.Sum):
            return sum(self.ev(c, env) for c in e.children)
        if isinstance(e, p.Product):
            r = 1
            for c in e.children:
                r = r * self.ev(c, env)
            return r
        if isinstance(e, p.FloorDiv):
            d = self.ev(e.denominator, env)
            if d == 0:
                raise AccessViolation(f"division by zero in index expression {e}")
            return self.ev(e.numerator, env) // d
        if isinstance(e, p.Remainder):
            d = self.ev(e.denominator, env)
            if d == 0:
                raise AccessViolation(f"modulo by zero in index expression {e}")
            return self.ev(e.numerator, env) % d
        if isinstance(e, p.Quotient):
            raise DataDependent("true division")
        if isinstance(e, p.Power):
            return self.ev(e.base, env) ** self.ev(e.exponent, env)
        if isinstance(e, p.Comparison):
            import operator
            op = {"==": operator.eq, "!=": operator.ne, "<": operator.lt, "<=": operator.le,
                  ">": operator.gt, ">=": operator.ge}[e.operator]
            return bool(op(self.ev(e.left, env), self.ev(e.right, env)))
        if isinstance(e, p.LogicalAnd):
            # short circuit, but data dependence of any needed operand propagates
            res = True
            dd = None
            for c in e.children:
                try:
                    if not self.ev(c, env):
                        return False
                except DataDependent as ex:
                    dd = ex
            if dd:
                raise dd
            return res
        if isinstance(e, p.LogicalOr):
            dd = None
            for c in e.children:
                try:
                    if self.ev(c, env):
                        return True
                except DataDependent as ex:
                    dd = ex
            if dd:
                raise dd
            return False
        if isinstance(e, p.LogicalNot):
            return not self.ev(e.child, env)
        if isinstance(e, p.If):
            return self.ev(e.then, env) if self.ev(e.condition, env) else self.ev(e.else_, env)
        if isinstance(e, LpTypeCast):
            return self.ev(e.child, env)
        if isinstance(e, p.Min):
            return min(self.ev(c, env) for c in e.children)
        if isinstance(e, p.Max):
            return max(self.ev(c, env) for c in e.children)
        if isinstance(e, p.Call):
            raise DataDependent("function call")
        if isinstance(e, Reduction):
            raise DataDependent("reduction value")
        if isinstance(e, (p.BitwiseAnd, p.BitwiseOr, p.BitwiseXor)):
            import functools
            import operator
            op = {p.BitwiseAnd: operator.and_, p.BitwiseOr: operator.or_, p.BitwiseXor: operator.xor}[type(e)]
            return functools.reduce(op, [self.ev(c, env) for c in e.children])
        if isinstance(e, p.BitwiseNot):
            return ~self.ev(e.child, env)
        if isinstance(e, p.NaN):
            raise DataDependent("NaN")
        raise Unknown(f"unsupported node in index expression: {type(e).__name__}: {e}")

    def temp_value(self, name, env):
        insns = self.assign[name]
        if len(insns) != 1:
            raise DataDependent(f"temporary {name} assigned {len(insns)} times")
        insn = insns[0]
        if not (insn.within_inames <= set(env)):
            raise DataDependent(f"temporary {name} assigned under inames not in scope")
        return self.ev(insn.expression, env)

    # ---- walking an instruction's expressions
    def walk(self, e, env, insn, path):  # noqa: C901
        """visit all subscripts reachable under conditions that hold (or may hold)"""
        if isinstance(e, (int, float, complex, np.generic, bool, str)) or e is None:
            return
        if isinstance(e, p.Variable):
            return
        if isinstance(e, p.Subscript):
            self.check_access(e, env, insn, path)
            for i in e.index_tuple:
                self.walk(i, env, insn, path)
            return
        if isinstance(e, p.If):
            self.walk(e.condition, env, insn, path)
            try:
                c = self.ev(e.condition, env)
            except DataDependent:
                c = None
            if c is None or c:
                self.walk(e.then, env, insn, path + ("if-then" if c else "if-then?",))
            else:
                self.stats["guarded_out"] += 1
            if c is None or not c:
                self.walk(e.else_, env, insn, path + ("if-else" if c is not None else "if-else?",))
            else:
                self.stats["guarded_out"] += 1
            return
        if isinstance(e, Reduction):
            inames = list(e.inames)
            dom = self.knl.get_inames_domain(frozenset(inames))
            # resolve bound temporaries that parametrise the reduction domain
            env2 = dict(env)
            try:
                for i in range(dom.dim(isl.dim_type.param)):
                    nm = dom.get_dim_name(isl.dim_type.param, i)
                    if nm not in env2:
                        env2[nm] = self.ev(p.Variable(nm), env)
                pts = _points(dom, inames, env2)
            except DataDependent:
                # data-dependent reduction bounds (sparse rows): accesses indexed by these
                # inames are data-dependent by the property's own exclusion
                self.stats["data_dependent_accesses"] += 1
                return
            for pt in pts:
                env3 = dict(env)
                env3.update(zip(inames, pt))
                self.stats["points"] += 1
                self.walk(e.expr, env3, insn, path)
            return
        if isinstance(e, p.LogicalAnd):
            # C short-circuit semantics: later operands are evaluated only if the earlier hold
            for i, c in enumerate(e.children):
                self.walk(c, env, insn, path)
                try:
                    if not self.ev(c, env):
                        return
                except DataDependent:
                    pass
            return
        if isinstance(e, p.LogicalOr):
            for c in e.children:
                self.walk(c, env, insn, path)
                try:
                    if self.ev(c, env):
                        return
                except DataDependent:
                    pass
            return
        if isinstance(e, p.Call):
            for a in e.parameters:
                self.walk(a, env, insn, path)
            return
        if isinstance(e, LpTypeCast):
            self.walk(e.child, env, insn, path)
            return
        if isinstance(e, (p.Sum, p.Product, p.Min, p.Max, p.BitwiseAnd, p.BitwiseOr, p.BitwiseXor)):
            for c in e.children:
                self.walk(c, env, insn, path)
            return
        if isinstance(e, (p.Quotient, p.FloorDiv, p.Remainder)):
            self.walk(e.numerator, env, insn, path)
            self.walk(e.denominator, env, insn, path)
            return
        if isinstance(e, p.Power):
            self.walk(e.base, env, insn, path)
            self.walk(e.exponent, env, insn, path)
            return
        if isinstance(e, p.Comparison):
            self.walk(e.left, env, insn, path)
            self.walk(e.right, env, insn, path)
            return
        if isinstance(e, (p.LogicalNot, p.BitwiseNot)):
            self.walk(e.child, env, insn, path)
            return
        if isinstance(e, p.NaN):
            return
        if isinstance(e, tuple):
            for c in e:
                self.walk(c, env, insn, path)
            return
        if type(e).__name__ in ("SubArrayRef",):
            raise DataDependent("sub-array reference of a hand-written kernel call")
        raise Unknown(f"unsupported node {type(e).__name__}: {e}")

    def check_access(self, sub, env, insn, path):
        name = sub.aggregate.name
        if not self.is_array(name):
            raise Unknown(f"subscript of non-array {name}")
        try:
            idx = [self.ev(i, env) for i in sub.index_tuple]
        except DataDependent:
            self.stats["data_dependent_accesses"] += 1
            return
        shp = self.shape_of(name, env)
        self.stats["checked_accesses"] += 1
        if len(idx) != len(shp):
            self.violations.append(f"{insn.id}: {sub} has {len(idx)} indices for shape {shp}")
            return
        for d, (i, n) in enumerate(zip(idx, shp)):
            if not (0 <= i < n):
                point = {k: v for k, v in env.items()}
                self.violations.append(
                    f"instruction {insn.id}: access {sub} evaluates to index {idx} outside shape {shp} "
                    f"(axis {d}) at point {point} under path {list(path)}")
                return

    def run(self, size_valuations):
        k = self.knl
        for insn in k.instructions:
            self.stats["instructions"] += 1
            if isinstance(insn, lp.NoOpInstruction):
                continue
            exprs = []
            if isinstance(insn, lp.Assignment):
                exprs = [insn.assignee, insn.expression]
            elif isinstance(insn, lp.CallInstruction):
                # hand-written kernel: its own accesses are the caller's responsibility
                continue
            else:
                raise Unknown(f"instruction type {type(insn).__name__}")
            exprs += list(insn.predicates)
            self.stats["sites"] += sum(1 for _ in _subscripts(exprs))
            inames = sorted(insn.within_inames)
            dom = k.get_inames_domain(frozenset(inames)) if inames else None
            for sizes in size_valuations:
                env0 = dict(sizes)
                try:
                    if dom is not None:
                        envp = dict(env0)
                        for i in range(dom.dim(isl.dim_type.param)):
                            nm = dom.get_dim_name(isl.dim_type.param, i)
                            if nm not in envp:
                                envp[nm] = self.ev(p.Variable(nm), env0)
                        pts = _points(dom, inames, envp)
                    else:
                        pts = [()]
                except DataDependent:
                    self.stats["data_dependent_accesses"] += 1
                    continue
                for pt in pts:
                    env = dict(env0)
                    env.update(zip(inames, pt))
                    self.stats["points"] += 1
                    try:
                        ok = True
                        for pr in insn.predicates:
                            try:
                                if not self.ev(pr, env):
                                    ok = False
                            except DataDependent:
                                pass
                        if not ok:
                            continue
                        for e in exprs:
                            self.walk(e, env, insn, ())
                    except AccessViolation as ex:
                        self.violations.append(f"instruction {insn.id} at {env}: {ex}")
                    if len(self.violations) > 20:
                        return self
        return self


def _subscripts(exprs):
    from pymbolic.mapper.dependency import DependencyMapper  # noqa: F401
    stack = list(exprs)
    while stack:
        e = stack.pop()
        if isinstance(e, p.Subscript):
            yield e
        if isinstance(e, p.ExpressionNode):
            import dataclasses
            if dataclasses.is_dataclass(e):
                for f in dataclasses.fields(e):
                    v = getattr(e, f.name)
                    if isinstance(v, tuple):
                        stack.extend(v)
                    else:
                        stack.append(v)


def size_params(t_unit):
    k = t_unit.default_entrypoint
    return [a.name for a in k.args if isinstance(a, lp.ValueArg) and not a.name.endswith("_offset")]


def check_kernel(t_unit, max_size=6, sizes=None):
    """-> (violations, stats).  sizes: explicit list of valuations, default all in 0..max_size"""
    names = size_params(t_unit)
    if sizes is None:
        sizes = [dict(zip(names, v)) for v in itertools.product(range(0, max_size + 1), repeat=len(names))]
    c = Checker(t_unit).run(sizes)
    c.stats["size_valuations"] = len(sizes)
    return c.violations, c.stats
