"""Stateless exhaustive exploration of a driver's choice points (DESIGN §3).

    def driver(ch): ... ch.choose(n, label) ...   -> observation

`explore(driver)` runs the driver for **every** choice vector: depth-first,
prefix replay, choice 0 taken after the prefix.  A replayed prefix whose recorded
(n, label) differs from what the driver asks for is a hard error
(nondeterminism the harness does not own).  `max_dev` bounds the number of
non-default (non-zero) choices per execution.
"""
from __future__ import annotations


class ReplayDivergence(Exception):
    pass


class Chooser:
    def __init__(self, prefix=(), expect=()):
        self.prefix = list(prefix)
        self.expect = list(expect)      # [(n, label)] recorded when the prefix was first produced
        self.trace = []                 # [(n, label, choice)]
        self.costs = []

    def choose(self, n, label="", cost=1):
        """cost: weight of a non-default answer at this point towards the deviation bound"""
        i = len(self.trace)
        self.costs.append(cost)
        if n <= 0:
            raise ValueError("choice point without alternatives")
        if i < len(self.prefix):
            c = self.prefix[i]
            if i < len(self.expect) and self.expect[i] != (n, label):
                raise ReplayDivergence(f"choice point {i}: recorded {self.expect[i]} but driver asks {(n, label)}")
            if c >= n:
                raise ReplayDivergence(f"choice point {i}: replayed choice {c} out of range {n} ({label})")
        else:
            c = 0
        self.trace.append((n, label, c))
        return c

    @property
    def choices(self):
        return [t[2] for t in self.trace]

    @property
    def labels(self):
        return [f"{t[1]}={t[2]}/{t[0]}" for t in self.trace]


def explore(driver, *, max_dev=None, max_runs=None):
    """yields (chooser, observation) for every choice vector (within max_dev)."""
    stack = [((), ())]
    runs = 0
    while stack:
        prefix, expect = stack.pop()
        ch = Chooser(prefix, expect)
        obs = driver(ch)
        runs += 1
        yield ch, obs
        if max_runs is not None and runs >= max_runs:
            return
        tr = ch.trace
        for i in range(len(tr) - 1, len(prefix) - 1, -1):
            n = tr[i][0]
            base = [t[2] for t in tr[:i]]
            for alt in range(n - 1, 0, -1):
                newp = (*base, alt)
                if max_dev is not None and sum(ch.costs[j] for j, c in enumerate(newp) if c) > max_dev:
                    continue
                stack.append((newp, tuple((t[0], t[1]) for t in tr[:i + 1])))


def replay(driver, choices):
    ch = Chooser(choices)
    return ch, driver(ch)
