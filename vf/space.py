"""Alphabets and bounded enumerators of programs (DESIGN §4.2, §4.3).

Everything here is deterministic enumeration; nothing is sampled.  `l1(tier)`
lists every operation instance over leaves, `l2(tier)` substitutes
representative L1 terms into every operand slot of every L1 instance.
"""
from __future__ import annotations

import functools
import itertools

import numpy as np

from vf import terms as T

DT = ["bool", "int32", "int64", "float32", "float64", "complex128"]
DTS = {"bool": "b", "int32": "i", "int64": "l", "float32": "f", "float64": "d",
       "complex128": "c", "int8": "i1", "int16": "i2", "uint8": "u1", "uint16": "u2",
       "uint32": "u4", "uint64": "u8", "complex64": "c8"}


def ph(base, shape, dtype):
    name = base + "".join(str(s) for s in shape) + DTS[dtype] if shape else base + "s" + DTS[dtype]
    return ["ph", name, list(shape), dtype]


def dw(base, shape, dtype):
    return ["dw", base + "".join(str(s) for s in shape) + DTS[dtype], list(shape), dtype]


def kind(dtype):
    return np.dtype(dtype).kind


# ----------------------------------------------------------------------------
# operator families over leaf operands.  Each yields (family, term).

def unary_family(tier):
    shapes = [(3,), (2, 3)] if tier == "quick" else [(), (3,), (2, 3), (0,), (2, 0, 2)]
    for shape in shapes:
        for dt in DT:
            x = ph("a", shape, dt)
            if kind(dt) != "b":
                yield "neg", ["neg", x]
            yield "abs", ["abs", x]
            yield "lnot", ["lnot", x]
            for fn in T.MATHFNS:
                if fn == "abs":
                    continue
                if shape != (3,) and fn not in ("sin", "exp", "conj", "isnan", "real", "imag", "sqrt"):
                    continue
                yield "fn:" + fn, ["fn", fn, x]
            for dt2 in DT:
                if shape == (3,) or (dt2 in ("float64", "int32", "bool", "complex128") and tier != "quick"):
                    yield "astype", ["astype", x, dt2]
    for shape in [(), (2, 3)]:
        for dt in DT:
            yield "zeros_like", ["zeros_like", ph("a", shape, dt)]
            yield "ones_like", ["ones_like", ph("a", shape, dt)]


BIN_SHAPE_PAIRS_Q = [((3,), (3,)), ((2, 3), (3,)), ((2, 1), (1, 3)), ((), (3,)), ((2, 3), ()),
                     ((0,), (0,)), ((2, 3, 2), (3, 1)), ((1,), (3,))]
BIN_SHAPE_PAIRS_T = BIN_SHAPE_PAIRS_Q + [((), ()), ((2, 0), (1,)), ((1, 3), (2, 1)),
                                         ((2, 1, 3, 2), (3, 1)), ((4, 5), (5,)), ((0, 3), (3,))]
ALL_BINOPS = ([("bin", o) for o in T.BINOPS] + [("cmp", o) for o in T.CMPOPS]
              + [("logic", o) for o in T.LOGICOPS] + [("mm", "maximum"), ("mm", "minimum"),
                                                      ("arctan2", None)])
PY_SCALARS = [["py", 2], ["py", 2.5], ["py", True], ["py", {"c": [1.0, -2.0]}], ["py", -3], ["py", 0.5]]
NP_SCALARS = [["nps", "int32", 3], ["nps", "float32", 1.5], ["nps", "float64", -2.5],
              ["nps", "int64", 2], ["nps", "bool", True], ["nps", "complex128", {"c": [0.5, 1.0]}]]


def mkbin(op, a, b):
    if op[0] == "arctan2":
        return ["arctan2", a, b]
    return [op[0], op[1], a, b]


def binary_family(tier):
    pairs = BIN_SHAPE_PAIRS_Q if tier == "quick" else BIN_SHAPE_PAIRS_T
    for op in ALL_BINOPS:
        fam = op[1] or "arctan2"
        for (s1, s2) in pairs:
            if (s1, s2) == ((3,), (3,)):
                dts = list(itertools.product(DT, DT))
            elif tier == "quick":
                dts = [("float64", "float64"), ("int32", "float32")]
            else:
                dts = [("float64", "float64"), ("int32", "float32"), ("bool", "int64"),
                       ("complex128", "float32"), ("int32", "int32"), ("bool", "bool")]
            for d1, d2 in dts:
                yield fam, mkbin(op, ph("a", s1, d1), ph("b", s2, d2))
        # sharing: x op x
        for dt in DT:
            x = ph("a", (2, 3), dt)
            yield fam, mkbin(op, x, x)
        # scalar operands in both positions
        scal = PY_SCALARS + (NP_SCALARS if tier != "quick" else NP_SCALARS[:3])
        for sc in scal:
            for dt in DT:
                for shape in ([(3,)] if tier == "quick" else [(3,), (), (2, 3)]):
                    yield fam, mkbin(op, ph("a", shape, dt), sc)
                    yield fam, mkbin(op, sc, ph("a", shape, dt))


def where_family(tier):
    for dc in ["bool", "int32", "float64"]:
        for (d1, d2) in [("float64", "float64"), ("int32", "float32"), ("float32", "float32"),
                         ("complex128", "int64"), ("bool", "bool"), ("int32", "int32")]:
            for (sc, s1, s2) in [((3,), (3,), (3,)), ((2, 1), (1, 3), ()), ((2, 3), (3,), (2, 1))]:
                yield "where", ["where", ph("c", sc, dc), ph("a", s1, d1), ph("b", s2, d2)]
        for dt in ["float32", "float64", "int32", "complex128"]:
            yield "where", ["where", ph("c", (3,), dc), ph("a", (3,), dt), ["py", 1.0]]
            yield "where", ["where", ph("c", (3,), dc), ["py", 2], ph("a", (3,), dt)]
            yield "where", ["where", ph("c", (3,), dc), ph("a", (3,), dt), ["py", "nan"]]


def axis_subsets(nd):
    res = [None]
    for r in range(1, nd + 1):
        for c in itertools.combinations(range(nd), r):
            res.append(c[0] if r == 1 else list(c))
    if nd >= 1:
        res.append(-1)
    if nd >= 2:
        res.append([-1, 0])
    # axis tuples that are not increasing (the caller's order is kept by the API)
    for r in range(2, nd + 1):
        for c in itertools.combinations(range(nd), r):
            res.append(list(reversed(c)))
            if r >= 3:
                res.append(list(c[1:]) + [c[0]])
    return res


def reduction_family(tier):
    shapes = [(3,), (2, 3), (2, 3, 2), (1, 3)] if tier == "quick" else [
        (), (3,), (2, 3), (2, 3, 2), (1, 3), (0, 3), (2, 0), (2, 1, 3, 2), (5,)]
    for op in T.REDOPS:
        for shape in shapes:
            for ax in axis_subsets(len(shape)):
                dts = DT if shape in ((2, 3), (3,)) else ["float64", "int32"]
                for dt in dts:
                    yield "red:" + op, ["red", op, ph("a", shape, dt), ax]


EINSUM_SPECS = [
    ("ij,jk->ik", [(2, 3), (3, 2)]), ("ij,j->i", [(2, 3), (3,)]), ("ii->i", [(3, 3)]),
    ("ii->", [(3, 3)]), ("ij->ji", [(2, 3)]), ("ij->", [(2, 3)]), ("ij->j", [(2, 3)]),
    ("i,i->", [(3,), (3,)]), ("i,j->ij", [(2,), (3,)]), ("ij,ij->ij", [(2, 3), (2, 3)]),
    ("ij,ij->ij", [(2, 3), (1, 3)]), ("ij,ij->i", [(2, 1), (2, 3)]),
    ("ij,jk,kl->il", [(2, 3), (3, 2), (2, 2)]), ("ijk,ik->j", [(2, 3, 2), (2, 2)]),
    ("i,i,i->i", [(3,), (3,), (3,)]), ("ij,ji->ij", [(2, 2), (2, 2)]), ("i->", [(0,)]),
    ("ij,jk->ik", [(2, 0), (0, 3)]), (",i->i", [(), (3,)]), ("ij,kj->ik", [(2, 3), (2, 3)]),
]


def einsum_family(tier):
    for spec, shapes in EINSUM_SPECS:
        dts = [("float64",) * 3, ("int32", "float32", "float64"), ("complex128", "float64", "int64"),
               ("int32",) * 3, ("bool",) * 3]
        if tier == "quick":
            dts = dts[:3]
        for dtt in dts:
            ops = [ph("abc"[i], s, dtt[i]) for i, s in enumerate(shapes)]
            yield "einsum", ["einsum", spec, *ops]
    # unit-axis broadcasting: each single occurrence of a repeated letter gets length 1 in turn
    for spec, shapes in EINSUM_SPECS:
        ins = spec.split("->")[0].split(",")
        occ = [(i, j) for i, sub in enumerate(ins) for j, c in enumerate(sub)
               if sum(x.count(c) for x in ins) >= 2 and shapes[i][j] > 1]
        for (i, j) in occ:
            shp = [list(x) for x in shapes]
            shp[i][j] = 1
            ops = [ph("abc"[n], tuple(x), "float64") for n, x in enumerate(shp)]
            yield "einsum", ["einsum", spec, *ops]
    mm = [((2, 3), (3, 2)), ((3,), (3,)), ((2, 3), (3,)), ((3,), (3, 2)), ((2, 2, 3), (3, 2)),
          ((2, 2, 3), (2, 3, 2)), ((2, 3), (2, 3, 2)), ((2, 1, 2, 3), (3, 3, 2)), ((2, 0), (0, 3))]
    for s1, s2 in mm:
        for d1, d2 in [("float64", "float64"), ("int32", "float32"), ("complex128", "float64"),
                       ("int64", "int32")]:
            yield "matmul", ["matmul", ph("a", s1, d1), ph("b", s2, d2)]
    for s1, s2 in [((3,), (3,)), ((2, 3), (3,)), ((2, 3), (3, 2)), ((), (3,)), ((2, 3), ()),
                   ((2, 2, 3), (3,)), ((2, 3), (2, 3, 2))]:
        for d1, d2 in [("float64", "float64"), ("int32", "complex128")]:
            yield "dot", ["dot", ph("a", s1, d1), ph("b", s2, d2)]
    for s1 in [(3,), (2, 3)]:
        for d1, d2 in [("float64", "float64"), ("complex128", "complex128"), ("complex128", "float64"),
                       ("int32", "int32")]:
            yield "vdot", ["vdot", ph("a", s1, d1), ph("b", s1, d2)]


def perms(n):
    return [list(p) for p in itertools.permutations(range(n))]


def shape_family(tier):  # noqa: C901
    thorough = tier != "quick"
    # stack / concatenate
    for shape in [(3,), (2, 3), ()] + ([(0, 2), (2, 1, 2)] if thorough else []):
        for n in (1, 2, 3):
            for ax in range(-len(shape) - 1, len(shape) + 1):
                dts = [("float64",) * 3, ("int32", "float64", "float32")]
                for dtt in dts:
                    ops = [ph("abc"[i], shape, dtt[i]) for i in range(n)]
                    yield "stack", ["stack", ax, *ops]
    for shapes in [[(3,), (2,)], [(2, 3), (1, 3)], [(2, 3), (2, 1), (2, 2)], [(3,)], [(0,), (2,)],
                   [(2, 0), (2, 3)], [(2, 3, 2), (2, 3, 1)]]:
        nd = len(shapes[0])
        for ax in range(-nd, nd):
            try:
                np.concatenate([np.zeros(s) for s in shapes], axis=ax)
            except ValueError:
                continue
            for dtt in [("float64",) * 3, ("int32", "float64", "bool")]:
                ops = [ph("abc"[i], s, dtt[i]) for i, s in enumerate(shapes)]
                yield "concat", ["concat", ax, *ops]
    # roll
    for shape in [(3,), (2, 3), (4, 5)[: 2 if thorough else 0], (0,), (1, 3)]:
        if not shape:
            continue
        for ax in range(len(shape)):
            n = shape[ax]
            for sh in sorted({0, 1, -1, 2, n, n + 1, -n - 1, -2}):
                yield "roll", ["roll", ph("a", shape, "float64"), sh, ax]
    yield "roll", ["roll", ph("a", (3,), "int32"), 1, 0]
    # transpose
    for shape in [(2, 3), (2, 3, 2), (1, 3), (3,)] + ([(2, 1, 3, 2), (), (0, 3)] if thorough else []):
        for p in perms(len(shape)):
            yield "transpose", ["transpose", ph("a", shape, "float64"), p]
        yield "transpose", ["transpose", ph("a", shape, "int32"), None]
        yield "transpose", ["T", ph("a", shape, "complex128")]
    # reshape
    for shape in [(6,), (2, 3), (2, 3, 2), (1, 6), (3, 1, 2), (), (1,), (0, 3), (4,)]:
        size = int(np.prod(shape))
        news = reshapes_of(size, 3)
        for ns in news:
            for order in "CF":
                yield "reshape", ["reshape", ph("a", shape, "float64"), list(ns), order]
        if shape:
            yield "reshape", ["reshape", ph("a", shape, "int32"), [-1], "C"]
            if size and size % 2 == 0:
                yield "reshape", ["reshape", ph("a", shape, "int32"), [2, -1], "F"]
                yield "reshape", ["reshape", ph("a", shape, "int32"), [-1, 2], "C"]
            yield "reshape", ["reshape", ph("a", shape, "int32"), size, "C"]
    for order in "cf":      # (NumPy accepts the order in lower case as well)
        yield "reshape", ["reshape", ph("a", (2, 3), "float64"), [3, 2], order]
        yield "reshape", ["reshape", ph("a", (2, 3, 2), "int32"), [4, 3], order]
    # expand_dims / squeeze / broadcast_to
    for shape in [(3,), (2, 3), ()]:
        for ax in range(-len(shape) - 1, len(shape) + 1):
            yield "expand_dims", ["expand_dims", ph("a", shape, "float64"), ax]
        if len(shape) >= 1:
            yield "expand_dims", ["expand_dims", ph("a", shape, "float64"), [0, 2]]
            yield "expand_dims", ["expand_dims", ph("a", shape, "float64"), [0, -1]]
    for shape, axes in [((1, 3), [None, 0, -2]), ((2, 1, 1), [None, 1, [1, 2], -1]), ((1,), [None, 0]),
                        ((1, 1), [None]), ((3, 1, 2, 1), [None, 1, 3, [1, 3]]), ((2, 3), [None])]:
        for ax in axes:
            yield "squeeze", ["squeeze", ph("a", shape, "float64"), ax]
    for shape, tgt in [((3,), (2, 3)), ((1, 3), (2, 3)), ((), (2, 3)), ((2, 1), (2, 3)),
                       ((2, 1), (4, 2, 3)), ((1,), (0,)), ((3,), (3,)), ((1, 1), (2, 1, 3))]:
        for dt in ("float64", "int32"):
            yield "broadcast_to", ["broadcast_to", ph("a", shape, dt), list(tgt)]
    # pad
    for shape in [(3,), (2, 3)] + ([(0,), (1, 1, 2)] if thorough else []):
        nd = len(shape)
        widths = [1, 0, 2, [1, 2], [0, 1], [2, 0]]
        if nd == 2:
            widths += [[[1, 0], [0, 2]], [[0, 0], [1, 1]], [[2, 1], [1, 2]]]
        cvs = [0, 1.5, [2, 3]] + ([[[1, 2], [3, 4]]] if nd == 2 else [])
        for w in widths:
            for cv in cvs:
                for dt in ("float64", "int32"):
                    if dt == "int32" and cv == 1.5:
                        continue
                    yield "pad", ["pad", ph("a", shape, dt), w, cv]


def reshapes_of(size, maxnd):
    res = set()

    def rec(prefix, rem, nd):
        if nd == 0:
            return
        # last axis takes everything that remains
        res.add((*prefix, rem))
        if nd > 1:
            for d in range(0 if size == 0 else 1, max(rem, 1) + 1):
                if d == 0:
                    for r2 in ([0, 1, 2, 3] if nd > 1 else []):
                        res.add((*prefix, 0, r2))
                        res.add((*prefix, r2, 0))
                elif rem % d == 0:
                    rec((*prefix, d), rem // d, nd - 1)
    rec((), size, maxnd)
    if size == 1:
        res.add(())
    out = [s for s in sorted(res) if int(np.prod(s)) == size and len(s) <= maxnd]
    return out


SLICES_REP = [["s", None, None, None], ["s", 1, None, None], ["s", None, -1, None],
              ["s", None, None, -1], ["s", None, None, 2], ["s", -2, None, None],
              ["s", 2, 0, -1], ["s", 1, 1, None], ["s", None, None, -2], ["s", 0, 5, 3],
              ["s", -1, None, -2], ["s", 5, None, None], ["s", 5, None, -1], ["s", 9, 1, -2],
              ["s", -9, None, -1], ["s", None, -9, -1]]


def index_family(tier):
    thorough = tier != "quick"
    x1 = ph("a", (5,), "float64")
    for s in SLICES_REP:
        yield "bindex", ["index", x1, [s]]
    for i in (0, 2, -1, -5, 4):
        yield "bindex", ["index", x1, [i]]
    x2 = ph("a", (3, 4), "float64")
    reps = SLICES_REP if thorough else SLICES_REP[:8]
    for s1 in reps + [0, -1]:
        for s2 in reps + [1, -4]:
            yield "bindex", ["index", x2, [s1, s2]]
    x3 = ph("a", (2, 3, 2), "int32")
    for idx in [[0], [["s", None, None, -1]], ["...", 1], [1, "...", ["s", None, None, -1]],
                [["s", 1, None, None], 2], [-1, -1, -1], ["...", ["s", None, 1, None]],
                [["s", None, None, None], ["s", None, None, -2], 0]]:
        yield "bindex", ["index", x3, idx]
    yield "bindex", ["index", ph("a", (0, 3), "float64"), [["s", None, None, -1], ["s", 1, None, None]]]
    yield "bindex", ["index", ph("a", (), "float64"), []]
    yield "bindex", ["index", ph("a", (), "float64"), ["..."]]
    # advanced
    ia2 = ["dwv", "i2", "int32", [0, -1]]
    ia2l = ["dwv", "i2l", "int64", [2, 0]]
    ia21 = ["dwv", "i21", "int64", [[1], [-2]]]
    ia13 = ["dwv", "i13", "int32", [[0, 1, -1]]]
    ia0 = ["dwv", "i0", "int64", 1]
    A = lambda t: ["a", t]  # noqa: E731
    full = ["s", None, None, None]
    xs = ph("a", (3, 4), "float64")
    for idx in [[A(ia2)], [A(ia2), A(ia2l)], [full, A(ia2)], [A(ia2), full], [A(ia21), A(ia13)],
                [A(ia0)], [A(ia0), A(ia2)], [1, A(ia2)], [A(ia2), 0], [["s", 1, None, None], A(ia2)],
                [A(ia21), ["s", None, None, -1]], [A(ia13)], [A(ia2), ["s", None, None, 2]]]:
        yield "aindex", ["index", xs, idx]
    x3 = ph("a", (3, 4, 3), "float64")
    for idx in [[A(ia2), full, A(ia2l)], [A(ia2), A(ia2l), full], [full, A(ia2), A(ia2l)],
                [A(ia2), 1, A(ia2l)], [A(ia21), full, A(ia13)], [A(ia2), ["s", 1, 3, None], A(ia0)],
                [0, A(ia2), full], [full, 1, A(ia2)], [A(ia2), full, 1], [A(ia0), full, A(ia0)],
                [A(ia2), full, full], [full, full, A(ia21)], [1, full, A(ia2)], [A(ia2), full, 0],
                [["s", None, None, -1], A(ia13), A(ia21)], [full, A(ia2), full]]:
        yield "aindex", ["index", x3, idx]
    # placeholder index arrays
    pi = ph("i", (2,), "int32")
    yield "aindex", ["index", xs, [A(pi)]]
    yield "aindex", ["index", xs, [full, A(pi)]]
    yield "aindex", ["index", x3, [A(pi), full, A(pi)]]


def csr_patterns(nr, nc, maxnnz):
    cells = [(r, c) for r in range(nr) for c in range(nc)]
    for k in range(0, maxnnz + 1):
        for comb in itertools.combinations(cells, k):
            rs = [0]
            cols = []
            for r in range(nr):
                cs = [c for (rr, c) in comb if rr == r]
                cols += cs
                rs.append(len(cols))
            yield cols, rs


def csr_family(tier):
    n = 0
    for (nr, nc) in [(2, 3), (3, 2)]:
        for cols, rs in csr_patterns(nr, nc, 3 if tier != "quick" else 2):
            nnz = len(cols)
            vals = ["dw", f"v{nnz}", [nnz], "float64"]
            ct = ["dwv", f"c{n}", "int32", cols, [nnz]]
            rt = ["dwv", f"r{n}", "int32", rs, [nr + 1]]
            n += 1
            for xs in [(nc,), (nc, 2)]:
                yield "csrmm", ["csrmm", [nr, nc], vals, ct, rt, ph("a", xs, "float64")]
    # placeholders as csr parts, int values
    yield "csrmm", ["csrmm", [2, 3], ph("v", (2,), "float32"), ["dwv", "cc", "int64", [2, 0], [2]],
                    ["dwv", "rr", "int64", [0, 1, 2], [3]], ph("a", (3,), "float64")]


def creation_family(tier):
    for shape in [(3,), (2, 3), (), (0,)]:
        yield "full", ["full", list(shape), 2.5, None]
        yield "full", ["full", list(shape), 3, "float32"]
        yield "full", ["full", list(shape), True, None]
        yield "full", ["full", list(shape), ["py", {"c": [1.0, 2.0]}], None]
        yield "full", ["full", list(shape), 7, "int32"]
        for dt in DT:
            yield "zeros", ["zeros", list(shape), dt]
            yield "ones", ["ones", list(shape), dt]
    yield "full", ["full", [3], ["py", "nan"], "float64"]
    yield "full", ["full", [3], ["py", "inf"], "float32"]
    for (N, M, k) in [(3, None, 0), (2, 3, 0), (3, 2, 1), (3, 3, -1), (2, 2, 5), (0, 2, 0), (1, 1, 0)]:
        yield "eye", ["eye", N, M, k, None]
        for dt in ("int32", "float32", "bool", "complex128"):
            yield "eye", ["eye", N, M, k, dt]
    for args in [[5], [1, 5], [0, 6, 2], [5, 0, -1], [3, 3], [0], [2, 9, 3], [-3, 3], [5, 1, -2]]:
        for dt in ("int32", "int64", "float64", "float32"):
            yield "arange", ["arange", args, dt]
    yield "arange", ["arange", [0.5, 3.0, 0.5], "float64"]
    yield "arange", ["arange", [1.0, 0.0, -0.25], "float32"]
    for shape in [(3,), (2, 3), ()]:
        for dt in DT:
            yield "dw", dw("w", shape, dt)
            yield "ph", ph("a", shape, dt)


FAMILIES = [unary_family, binary_family, where_family, reduction_family, einsum_family,
            shape_family, index_family, csr_family, creation_family]


def np_accepts(term):
    """(shape, dtype) NumPy gives, or None when NumPy rejects the term."""
    try:
        import warnings
        with warnings.catch_warnings():
            warnings.simplefilter("ignore")
            return T.np_shape_dtype(term)
    except Exception:  # noqa: BLE001
        return None


@functools.lru_cache(maxsize=None)
def l1(tier):
    """[(family, term, shape, dtype)] : every L1 instance NumPy accepts."""
    seen = set()
    res = []
    for fam in FAMILIES:
        for f, t in fam(tier):
            k = T.tkey(t)
            if k in seen:
                continue
            seen.add(k)
            sd = np_accepts(t)
            if sd is None:
                continue
            res.append((f, t, sd[0], str(sd[1])))
    return res


def sig_class(shape, dtype):
    return (tuple(shape), str(dtype))


@functools.lru_cache(maxsize=None)
def representatives(tier):
    """first L1 term (canonical order) per (family, result shape, dtype)"""
    reps = {}
    for f, t, shape, dtype in l1(tier):
        if f in ("ph",):
            continue
        key = (sig_class(shape, dtype), f.split(":")[0] if f.startswith("fn:") else f)
        if key not in reps:
            reps[key] = t
    by_sig = {}
    for (sig, f), t in reps.items():
        by_sig.setdefault(sig, []).append((f, t))
    return by_sig


def replace_leaf(t, leaf_key, new):
    if isinstance(t, list):
        if t and isinstance(t[0], str) and T.tkey(t) == leaf_key:
            return new
        return [replace_leaf(x, leaf_key, new) for x in t]
    return t


def ph_leaves(t):
    return [s for s in T.all_subterms(t) if s[0] == "ph"]


COMPOSITION_SENSITIVE = ("red", "einsum", "matmul", "dot", "bindex", "aindex", "reshape",
                         "stack", "concat", "where", "astype", "roll", "pad", "transpose",
                         "csrmm", "broadcast_to", "vdot", "squeeze", "expand_dims")


def l2(tier, outer_filter=None):
    """substitute every representative into every placeholder slot of every L1
    instance; returns [(family-outer/family-inner, term)]"""
    reps = representatives(tier)
    out = []
    seen = set()
    for f, t, _shape, _dtype in l1(tier):
        if f in ("ph", "dw"):
            continue
        if outer_filter is not None and not outer_filter(f):
            continue
        for leaf in ph_leaves(t):
            sig = sig_class(leaf[2], leaf[3])
            for (fi, r) in reps.get(sig, ()):
                new = replace_leaf(t, T.tkey(leaf), r)
                k = T.tkey(new)
                if k in seen:
                    continue
                seen.add(k)
                out.append((f + "/" + fi, new))
    return out


def program_variants(term, idx=0):
    """output-set variants of a single-root term: list of [[name, term], …]"""
    subs = [s for s in T.subterms(term) if s[0] not in ("s", "a", "py", "nps")]
    variants = [[["out", term]]]
    inner = [s for s in subs if s[0] not in ("ph",)]
    phs = ph_leaves(term)
    if inner:
        variants.append([["out", term], ["inner", inner[0]]])
        variants.append([["inner", inner[0]], ["out", term]])
    variants.append([["o1", term], ["o2", term]])
    if phs:
        variants.append([["out", term], ["inp", phs[0]]])
    return variants


def sibling_pair_programs():
    """programs whose two outputs / operands are the same operation applied to the
    same input with ONE parameter differing, over all ordered pairs of a small
    parameter alphabet (incl. -1/-2, whose Python hashes coincide, and 1/1.0/True)."""
    x = ph("a", (7,), "float64")
    m = ph("m", (3, 7), "float64")
    P = [-3, -2, -1, 0, 1, 2, 3]
    fams = {
        "roll": lambda p: ["roll", x, p, 0],
        "int-index": lambda p: ["index", m, [["s", None, None, None], p]],
        "slice-start": lambda p: ["index", x, [["s", p, None, None]]],
        "slice-stop": lambda p: ["index", x, [["s", None, p, None]]],
        "scalar-sub": lambda p: ["bin", "sub", x, ["py", p]],
        "scalar-pow": lambda p: ["bin", "pow", x, ["py", p]],
        "scalar-mul-float": lambda p: ["bin", "mul", x, ["py", float(p)]],
        "full": lambda p: ["bin", "add", x, ["full", [7], p, "float64"]],
        "pad-const": lambda p: ["pad", x, 1, p],
        "eye-k": lambda p: ["eye", 4, 5, p, "float64"],
    }
    out = []
    for fam, f in fams.items():
        for p1 in P:
            for p2 in P:
                if p1 == p2:
                    continue
                t1, t2 = f(p1), f(p2)
                try:
                    s1, s2 = T.np_shape_dtype(t1)[0], T.np_shape_dtype(t2)[0]
                except Exception:  # noqa: BLE001
                    continue
                out.append(("sib2:" + fam, [["o1", t1], ["o2", t2]]))
                if s1 == s2:
                    out.append(("sib1:" + fam, [["out", ["bin", "sub", t1, t2]]]))
    for a, b in [(1, 1.0), (1.0, True), (True, 1), (0, False), (0.0, 0), (2, 2.0)]:
        out.append(("sib2:scalar-type", [["o1", ["bin", "mul", x, ["py", a]]], ["o2", ["bin", "mul", x, ["py", b]]]]))
        out.append(("sib1:scalar-type", [["out", ["bin", "add", ["bin", "mul", x, ["py", a]], ["bin", "mul", x, ["py", b]]]]]))
    return out


def symbolic_programs(tier="quick"):
    """programs over placeholders with symbolic (size-parameter) shapes, using the operations that
    admit symbolic axes; [(family, outs)]"""
    def P(name, shape, dt="float64"):
        return ["ph", name, list(shape), dt]
    x = P("x", ("n", 3))
    y = P("y", (3,))
    z = P("z", ("n",))
    w = P("w", ("n", "m"))
    v = P("v", ("m",))
    w2 = P("w2", ("m", "n"))
    a2 = P("a2", ("2*n+1",))
    b2 = P("b2", ("n+1", 2))
    xi = P("xi", ("n", 3), "int32")
    progs = []

    def add(fam, t, *more):
        progs.append((fam, [["out", t], *[[f"o{i}", m] for i, m in enumerate(more)]]))
    add("elementwise", ["bin", "add", x, y])
    add("elementwise", ["bin", "mul", x, x])
    add("elementwise", ["bin", "add", w, v])
    add("elementwise", ["bin", "sub", w, ["T", w2]])
    add("elementwise", ["bin", "add", ["bin", "mul", x, ["py", 2.0]], ["fn", "sin", x]])
    add("elementwise", ["where", ["cmp", "greater", x, ["py", 0.0]], x, ["neg", x]])
    add("elementwise", ["bin", "add", a2, ["py", 1.0]])
    add("elementwise", ["bin", "mul", b2, P("c2", (2,))])
    add("elementwise-int", ["bin", "add", ["bin", "mul", xi, ["py", 3]], ["bin", "mod", xi, ["py", 5]]])
    add("elementwise", ["mm", "maximum", x, y])
    add("transpose", ["T", x])
    add("transpose", ["transpose", w, [1, 0]])
    add("transpose", ["bin", "add", ["T", w], w2])
    for k in (-2, -1, 1, 2, 5):
        add("roll", ["roll", x, k, 0])
        add("roll", ["roll", z, k, 0])
    add("roll", ["roll", x, 1, 1])
    add("roll", ["roll", w, 1, 1])
    add("roll", ["roll", ["bin", "mul", w, ["py", 2.0]], -1, 0])
    add("roll", ["roll", a2, 3, 0])
    for ax in (0, 1, 2):
        add("stack", ["stack", ax, x, ["bin", "add", x, ["py", 1.0]]])
    add("stack", ["stack", 0, z, z])
    add("stack", ["stack", 1, z, ["neg", z]])
    add("stack", ["stack", 0, w, w, w])
    add("einsum", ["einsum", "ij,j->i", x, y])
    add("einsum", ["einsum", "ij,ij->ij", x, x])
    add("einsum", ["einsum", "ij->ji", w])
    add("einsum", ["einsum", "ij,j->ij", w, v])
    add("einsum", ["einsum", "i,i->i", z, z])
    add("einsum", ["einsum", "ij,jk->ik", w, P("v2", ("m", 3))])
    add("einsum", ["einsum", "ij,ij->i", x, x])
    add("einsum", ["matmul", x, y])
    add("einsum", ["matmul", ["T", x], x])
    add("einsum", ["einsum", "ij,ji->", w, w2])
    for op in T.REDOPS:
        add("reduce-static", ["red", op, x if op not in ("all", "any") else ["cmp", "greater", x, ["py", 0.0]], 1])
    add("reduce-symbolic", ["red", "sum", x, 0])
    add("reduce-symbolic", ["red", "sum", w, None])
    add("reduce-symbolic", ["red", "amax", w, 1])
    add("reduce-symbolic", ["red", "sum", z, 0])
    add("reduce-static", ["red", "sum", ["bin", "mul", x, y], [1]])
    add("creation", ["bin", "add", ["zeros", ["n", 3], "float64"], x])
    add("creation", ["full", ["n"], 2.5, None])
    add("creation", ["bin", "mul", ["ones", ["n", "m"], "float64"], w])
    add("creation", ["zeros", ["n", 3], "int32"])
    add("broadcast", ["broadcast_to", y, ["n", 3]])
    add("broadcast", ["broadcast_to", v, ["n", "m"]])
    add("concat-static-axis", ["concat", 1, x, x])
    add("concat-static-axis", ["concat", 1, x, ["index", x, [["s", None, None, None], ["s", 1, None, None]]]])
    add("index-static-axis", ["index", x, [["s", None, None, None], 1]])
    add("index-static-axis", ["index", x, [["s", None, None, None], ["s", None, None, -1]]])
    add("index-static-axis", ["index", x, ["...", ["s", 1, 3, None]]])
    add("index-symbolic-axis", ["index", x, [["s", None, None, None]]])
    add("index-symbolic-axis", ["index", x, [["s", 1, None, None]]])
    add("index-symbolic-axis", ["index", x, [["s", None, None, -1]]])
    add("index-symbolic-axis", ["index", x, [["s", None, None, 2]]])
    add("index-symbolic-axis", ["index", x, [["s", None, -1, None]]])
    add("index-symbolic-axis", ["index", z, [["s", None, None, -2]]])
    add("pad", ["pad", z, 1, 0])
    add("pad", ["pad", x, [[1, 2], [0, 1]], 0])
    add("expand", ["expand_dims", z, 0])
    add("expand", ["expand_dims", x, 1])
    add("adv-index-static", ["index", x, [["s", None, None, None], ["a", ["dwv", "ia", "int32", [2, 0]]]]])
    add("multi", ["bin", "add", x, y], ["red", "sum", x, 1], ["T", x])
    add("multi", ["roll", z, 1, 0], ["stack", 0, z, z])
    add("size-as-value", ["bin", "mul", x, ["sp", "n"]])
    add("size-as-value", ["bin", "add", z, ["bin", "mul", ["sp", "n"], ["py", 2]]])
    add("compose", ["red", "sum", ["roll", ["bin", "mul", x, y], 1, 0], 1])
    add("compose", ["T", ["stack", 0, ["roll", x, 1, 0], x]])
    add("compose", ["einsum", "ij,j->i", ["roll", x, -1, 0], ["bin", "add", y, y]])
    add("compose", ["bin", "add", ["roll", w, 1, 0], ["roll", w, 1, 1]])
    add("compose", ["roll", ["stack", 0, z, z], 1, 1])
    x3 = P("x3", ("n", "m", 3))
    for perm in ([1, 2, 0], [2, 0, 1], [0, 2, 1], [2, 1, 0]):
        add("transpose3", ["transpose", x3, perm])
    add("transpose3", ["bin", "add", ["transpose", x3, [1, 2, 0]], P("v3", ("n",))])
    # one axis length written in two ways (equal for every size, structurally different): every operand must still be
    # read along the whole axis, not taken for a broadcast unit axis
    for k, (s1, s2) in enumerate([("n+n", "2*n"), ("n+1", "1+n"), ("n+m", "m+n"), ("3*n-n", "2*n"), ("2*n", "n+n")]):
        p1, p2 = P(f"r{k}a", (s1,)), P(f"r{k}b", (s2,))
        q1, q2 = P(f"r{k}c", (s1, 3)), P(f"r{k}d", (s2, 3))
        add("respelled", ["bin", "add", p1, p2])
        add("respelled", ["bin", "mul", q1, q2])
        add("respelled", ["bin", "sub", q1, ["bin", "mul", q2, y]])
        add("respelled", ["where", ["cmp", "greater", p1, ["py", 0.0]], p2, ["neg", p1]])
        add("respelled", ["mm", "maximum", q2, q1])
        add("respelled", ["einsum", "i,i->i", p1, p2])
        add("respelled", ["einsum", "ij,ij->j", q1, q2])
        add("respelled", ["broadcast_to", p1, [s2]])
        add("respelled", ["stack", 0, p1, p2])
        add("respelled", ["concat", 1, q1, q2])
    return progs
