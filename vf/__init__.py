"""Verification framework for inducer/pytato: bounded exhaustive exploration.

Importing this package puts the repository under test ($VERIF_REPO, default
/repo) at the front of sys.path so that `import pytato` always resolves to the
*current working tree*, never to a stale copy.
"""
import os
import sys

VERIF_DIR = os.path.dirname(os.path.dirname(os.path.abspath(__file__)))
REPO = os.environ.get("VERIF_REPO", "/repo")

if REPO not in sys.path[:1]:
    sys.path.insert(0, REPO)
sys.dont_write_bytecode = True
os.environ.setdefault("PYTHONDONTWRITEBYTECODE", "1")
