"""Ranks in separate interpreters (C09, C17): every rank's partitioner / tag numbering / verifier runs in a
persistent child process with its own PYTHONHASHSEED against the replaying simulated MPI; the coordinator
applies the collectives to the pickled contributions (exactly what crosses process boundaries under MPI).

  python -m vf.distchild serve     length-prefixed pickle requests on stdin, replies on stdout
"""
from __future__ import annotations

import collections
import itertools
import pickle
import struct
import subprocess
import sys
import warnings

warnings.filterwarnings("ignore")


def _fn(prog, r, comm, junk=0):
    import pytato as pt
    from vf import distrun
    if junk:
        # differing allocation history: build and discard other graphs first
        keep = [pt.make_placeholder(f"junk{i}", (i + 1,), "float64") + i for i in range(junk)]
        del keep
    _b, dag = distrun.build_rank(prog, r)
    part0 = pt.find_distributed_partition(comm, dag)
    part, next_tag = pt.number_distributed_tags(comm, part0, base_tag=42)
    pt.verify_distributed_partition(comm, part)
    return {"partition": part, "unnumbered": part0, "dag": dag, "next_tag": next_tag}


def serve():
    import vf  # noqa: F401
    from vf import distrun
    MPI = distrun.install_fake_mpi()
    inp, out = sys.stdin.buffer, sys.stdout.buffer
    while True:
        hdr = inp.read(8)
        if len(hdr) < 8:
            return
        req = pickle.loads(inp.read(struct.unpack("<Q", hdr)[0]))
        comm = MPI.Comm(req["rank"], req["R"], coll_script=req["script"])
        try:
            res = _fn(req["prog"], req["rank"], comm, req.get("junk", 0))
            rep = {"status": "ok", "result": res}
        except MPI.NeedCollective as n:
            info = dict(n.info)
            if "op" in info:
                op = info.pop("op")
                info["opfn"] = (op.fn.__module__, op.fn.__qualname__)
            rep = {"status": "need", "kind": n.kind, "payload": n.payload, "info": info}
        except Exception as e:  # noqa: BLE001
            import traceback
            rep = {"status": "exc", "type": type(e).__name__, "msg": str(e)[:600], "tb": traceback.format_exc()[-1500:]}
        try:
            data = pickle.dumps(rep)
        except Exception as e:  # noqa: BLE001
            data = pickle.dumps({"status": "exc", "type": "unpicklable-reply:" + type(e).__name__, "msg": str(e)[:300], "tb": ""})
        out.write(struct.pack("<Q", len(data)))
        out.write(data)
        out.flush()


class RankChild:
    def __init__(self, seed):
        from vf import procrun, VERIF_DIR
        self.seed = seed
        self.p = subprocess.Popen([sys.executable, "-m", "vf.distchild", "serve"], env=procrun.child_env(seed), cwd=VERIF_DIR,
                                  stdin=subprocess.PIPE, stdout=subprocess.PIPE, stderr=subprocess.DEVNULL)

    def call(self, req):
        data = pickle.dumps(req)
        self.p.stdin.write(struct.pack("<Q", len(data)))
        self.p.stdin.write(data)
        self.p.stdin.flush()
        hdr = self.p.stdout.read(8)
        if len(hdr) < 8:
            raise RuntimeError(f"rank child (seed {self.seed}) died")
        n = struct.unpack("<Q", hdr)[0]
        raw = self.p.stdout.read(n)
        return pickle.loads(raw), raw

    def close(self):
        try:
            self.p.stdin.close()
            self.p.wait(timeout=10)
        except Exception:  # noqa: BLE001
            self.p.kill()


_CHILDREN = {}


def child(seed):
    if seed not in _CHILDREN:
        _CHILDREN[seed] = RankChild(seed)
        import atexit
        atexit.register(_CHILDREN[seed].close)
    return _CHILDREN[seed]


def run_ranks_in_children(prog, seeds, junk=None, max_rounds=40):
    """seeds[r] = PYTHONHASHSEED of rank r's interpreter -> {"status": {r: ("ok", res) | ("exc", info) | ("stuck", kind)}, rounds}"""
    import importlib
    R = prog["R"]
    scripts = [[] for _ in range(R)]
    junk = junk or [0] * R
    for rounds in range(max_rounds):
        status, needs = {}, {}
        for r in range(R):
            rep, _raw = child(seeds[r]).call({"prog": prog, "rank": r, "R": R, "script": scripts[r], "junk": junk[r]})
            if rep["status"] == "ok":
                status[r] = ("ok", rep["result"])
            elif rep["status"] == "need":
                needs[r] = rep
            else:
                status[r] = ("exc", rep)
        if not needs:
            return {"status": status, "rounds": rounds}
        if len(needs) < R or len({n["kind"] for n in needs.values()}) != 1:
            for r, n in needs.items():
                status[r] = ("stuck", n["kind"])
            return {"status": status, "rounds": rounds}
        kind = needs[0]["kind"]
        if kind == "allreduce":
            mod, qn = needs[0]["info"]["opfn"]
            fn = getattr(importlib.import_module(mod), qn)
            acc = needs[0]["payload"]
            for r in range(1, R):
                acc = fn(acc, needs[r]["payload"], None)
            results = [pickle.loads(pickle.dumps(acc)) for _ in range(R)]
        elif kind == "bcast":
            root = needs[0]["info"]["root"]
            results = [pickle.loads(pickle.dumps(needs[root]["payload"])) for _ in range(R)]
        elif kind == "gather":
            root = needs[0]["info"]["root"]
            results = [[needs[q]["payload"] for q in range(R)] if r == root else None for r in range(R)]
        elif kind == "barrier":
            results = [None] * R
        else:
            raise RuntimeError(kind)
        for r in range(R):
            scripts[r].append((kind, results[r]))
    raise RuntimeError("collective phase did not converge")


def tag_repr(t):
    """hash-seed independent text of a communication tag"""
    if isinstance(t, frozenset):
        return "frozenset{" + ", ".join(sorted(tag_repr(x) for x in t)) + "}"
    if isinstance(t, tuple):
        return "(" + ", ".join(tag_repr(x) for x in t) + ")"
    return repr(t)


def partition_summary(part):
    """names and structure of a partition, as text (what must agree between processes): mappings and sequences in
    their own order, set-typed fields (frozenset by declaration) sorted"""
    from vf import reflect
    lines = []
    for pid, p in part.parts.items():
        lines.append(f"part {pid!r} needs {sorted(p.needed_pids, key=repr)!r}")
        lines.append(f"  user_inputs {sorted(p.user_input_names)!r}")
        lines.append(f"  partition_inputs {sorted(p.partition_input_names)!r}")
        lines.append(f"  outputs {sorted(p.output_names)!r}")
        lines.append(f"  recvs {[(n, r.src_rank, tag_repr(r.comm_tag)) for n, r in p.name_to_recv_node.items()]!r}")
        lines.append(f"  sends {[(n, [(s.dest_rank, tag_repr(s.comm_tag)) for s in ss]) for n, ss in p.name_to_send_nodes.items()]!r}")
    lines.append(f"overall {list(part.overall_output_names)!r}")
    for n, e in part.name_to_output.items():
        lines.append(f"output {n} = {reflect.canon(e)}")
    return "\n".join(lines)


def run_multiprocess_case(case, check_contract, seeds_alphabet=(0, 1, 2)):
    from vf import terms as T
    prog = case["prog"]
    R = prog["R"]
    viol = []
    outcomes = collections.Counter()
    nstates = ntrans = 0
    where0 = f"program {case['fam']} tags {case['typing']} (one interpreter per rank)"
    summaries = {}
    for seeds in itertools.product(seeds_alphabet, repeat=R):
        nstates += 1
        where = where0 + f" hash seeds per rank {list(seeds)}"
        res = run_ranks_in_children(prog, seeds)
        ntrans += (res["rounds"] + 1) * R
        bad = {r: s for r, s in res["status"].items() if s[0] != "ok"}
        if bad:
            r0 = sorted(bad)[0]
            st = bad[r0]
            if st[0] == "exc":
                sig = {"kind": "exception-in-rank-process", "error": st[1]["type"]}
                msg = f"rank {r0}: {st[1]['type']}: {st[1]['msg']}\n{st[1]['tb']}"
            else:
                sig = {"kind": "rank-stuck-in-collective", "in": st[1]}
                msg = f"rank {r0} stuck in {st[1]}; others: { {r: s[0] for r, s in res['status'].items()} }"
            viol.append({"sig": sig, "msg": f"{where}: {msg}"})
            outcomes["rejected-or-stuck"] += 1
            continue
        results = {r: res["status"][r][1] for r in range(R)}
        v0 = len(viol)
        parts = check_contract(prog, results, where, viol)
        outcomes["ok" if len(viol) == v0 else "contract-violated"] += 1
        try:
            summ = "\n".join(f"rank {r}\n{partition_summary(parts[r])}" for r in range(R))
        except Exception as e:  # noqa: BLE001
            summ = f"summary failed {type(e).__name__}: {e}"
        summaries.setdefault(summ, []).append(list(seeds))
    if len(summaries) > 1:
        (a, sa), (b, sb) = list(summaries.items())[:2]
        diff = [(x, y) for x, y in zip(a.splitlines(), b.splitlines()) if x != y][:3]
        viol.append({"sig": {"kind": "partition-depends-on-hash-seeds"},
                     "msg": f"{where0}: seeds {sa[0]} and {sb[0]} give different partitions / tag numbers; first differing lines: {diff}"})
    seen, out = set(), []
    for v in viol:
        k = repr(sorted(v["sig"].items()))
        if k not in seen:
            seen.add(k)
            out.append(v)
    return {"key": None, "evaluations": nstates,
            "keys": [["mp", T.tkey(prog["ranks"]), case["typing"], i] for i in range(nstates)],
            "nontrivial": True, "outcome": "ok" if not out else "violation", "violations": out[:8],
            "states": nstates, "transitions": ntrans, "traces": nstates,
            "counters": {**{"mp_" + k: v for k, v in outcomes.items()}, "multiprocess_seed_assignments": nstates},
            "sample": {"family": case["fam"], "typing": case["typing"], "seed_assignments": nstates}}


if __name__ == "__main__":
    if sys.argv[1] == "serve":
        serve()
