"""Shared driver: build a program from terms, generate code, execute, compare
with NumPy.  Used by C01, C07, C11, C15, C16, C17."""
from __future__ import annotations

import traceback
import warnings

import numpy as np

import vf
from vf import terms as T
from vf import values

warnings.filterwarnings("ignore")


def exc_site(e: BaseException) -> str:
    """deepest frame inside the repository under test (file:function), else the
    deepest frame in loopy / pymbolic, else the raising frame."""
    tb = traceback.extract_tb(e.__traceback__)
    repo = vf.REPO.rstrip("/") + "/"
    best = None
    for fr in tb:
        if fr.filename.startswith(repo):
            best = fr.filename[len(repo):] + ":" + fr.name
    if best is None:
        for fr in tb:
            if "/loopy/" in fr.filename or "/pymbolic/" in fr.filename:
                best = fr.filename.split("site-packages/")[-1] + ":" + fr.name
    if best is None and tb:
        best = tb[-1].filename.split("/")[-1] + ":" + tb[-1].name
    return best or "?"


def exc_sig(stage, e):
    return {"kind": "exception", "stage": stage, "error": type(e).__name__, "where": exc_site(e)}


def exc_msg(stage, e, prog=None):
    tail = "".join(traceback.format_exception(e))[-1800:]
    return f"{stage} raised {type(e).__name__}: {str(e)[:300]}\nprogram: {prog}\n{tail}"


# --------------------------------------------------------------------------
# fragment rules (DESIGN §4.2): reasons a term is outside the supported fragment

ORDERING = ("less", "less_equal", "greater", "greater_equal", "maximum", "minimum")


def _dtype_of(t, cache):
    k = T.tkey(t)
    if k not in cache:
        try:
            cache[k] = T.np_shape_dtype(t)
        except Exception:  # noqa: BLE001
            cache[k] = None
    return cache[k]


def fragment_exclusion(term, sizes=None) -> str | None:  # noqa: C901
    """reason string if *term* is outside the fragment the value properties
    quantify over, judged from the term and NumPy's dtypes only."""
    cache = {}
    for s in T.all_subterms(term):
        h = s[0]
        ops = [x for x in T.subterms(s) if x[0] not in ("s", "a")]
        kinds = []
        for o in ops:
            if T.is_scalar_term(o):
                kinds.append(np.asarray(T.scalar_value(o)).dtype.kind)
            else:
                sd = _dtype_of(o, cache)
                kinds.append(sd[1].kind if sd else "?")
        if h in ("cmp", "mm") and s[1] in ORDERING and "c" in kinds:
            return "ordering of complex numbers"
        if h == "red" and s[1] in ("amax", "amin") and "c" in kinds:
            return "ordering of complex numbers"
        if h == "red" and s[1] in ("amax", "amin"):
            sd = _dtype_of(s[2], cache)
            if sd is not None:
                a = np.zeros(sd[0])
                ax = s[3]
                try:
                    np.amax(a, axis=tuple(ax) if isinstance(ax, list) else ax)
                except ValueError:
                    return "empty max/min reduction without initial"
        if h == "astype":
            sd = _dtype_of(s[1], cache)
            if sd is not None:
                k1, k2 = sd[1].kind, np.dtype(s[2]).kind
                if k1 in "fc" and k2 in "iub":
                    return "float/complex -> int/bool astype (documented NotImplementedError / undefined overflow)"
                if k1 == "c" and k2 in "iubf":
                    return "complex -> real astype (documented NotImplementedError)"
        if h == "bin" and s[1] in ("floordiv", "mod") and "c" in kinds:
            return "floordiv/mod of complex"
        if h == "bin" and s[1] in ("and", "or", "xor") and ("f" in kinds or "c" in kinds):
            return "bitwise op on float"
        if h == "arctan2" and "c" in kinds:
            return "arctan2 of complex"
        if h == "fn" and s[1] in ("arcsin", "arccos", "arctan", "sinh", "cosh", "tanh", "tan", "log10") and "c" in kinds:
            # complex inverse-trig / hyperbolic: libm's branch cuts vs NumPy's are
            # outside what pytato documents
            return "complex inverse trigonometric / hyperbolic function"
        if h == "pad":
            cv = s[3]
            if isinstance(cv, list):
                flat = cv if not isinstance(cv[0], list) else [c for pr in cv for c in [pr]]
                pairs = [cv] if not isinstance(cv[0], list) else cv
                if any(p[0] != p[1] for p in pairs):
                    sd = _dtype_of(s[1], cache)
                    if sd is not None and len(sd[0]) > 1:
                        return "pad corner cells with differing before/after constants (documented undefined)"
                del flat
        if h == "bin" and s[1] == "pow" and all(k in "iub" for k in kinds):
            pass  # negative exponents handled per valuation
    return None


NAN_AWARE_HEADS = {"ph", "dw", "dwv", "dwalias", "mm", "where", "cmp", "fn", "red", "py", "nps", "index", "stack",
                   "concat", "roll", "transpose", "T", "reshape", "expand_dims", "squeeze",
                   "broadcast_to", "full", "zeros", "ones", "bin", "neg", "abs", "pad", "dup", "tag"}


def nan_aware(term) -> bool:
    for s in T.all_subterms(term):
        if s[0] not in NAN_AWARE_HEADS:
            return False
        if s[0] == "fn" and s[1] not in ("isnan", "abs", "real", "imag", "conj"):
            return False
        if s[0] == "red" and s[1] not in ("sum",):
            return False
        if s[0] == "bin" and s[1] not in ("add", "sub", "mul"):
            return False
    return True


def valuations_for(terms):
    vs = list(values.VALUATIONS)
    if all(nan_aware(t) for t in terms):
        # max/min of NaN: fmax/fmin semantic differs from NumPy's propagating one
        # only matters where NaN meets an ordering op; pytato documents NaN-aware
        # maximum/minimum, so keep them in
        vs.append(values.SPECIAL)
    return vs


class Built:
    pass


def build_outputs(outs, on_node=None):
    """outs: [[name, term], …] -> (builder, {name: pt.Array}) in given order"""
    b = T.PtBuilder()
    b.on_node = on_node
    res = {}
    for name, t in outs:
        res[name] = b(t)
    return b, res


def _min_eps(ev):
    """tolerance floor: eps of the least precise floating dtype among the *results of operations* of the NumPy evaluation
    (NumPy computes every operation in its result dtype; an input of lower precision does not license computing a float64
    result in float)"""
    return ev.eps_computed


def reference(outs, valuation, sizes=None):
    """NumPy results per output name + the evaluator (scale / nred / excluded)."""
    inputs = T.make_inputs([t for _, t in outs], valuation, sizes)
    ev = T.NpEval(inputs, sizes)
    ref = {}
    for name, t in outs:
        ref[name] = np.asarray(ev(t))
    return inputs, ref, ev


def run_c_program(outs, *, sizes_list=(None,), on_node=None, valuations=None,
                  check_decl=True, prebuilt=None, gl_kwargs=None, blame=True):
    """Full C01-style pipeline.  Returns dict(outcome, violations, bp, results).

    outcome: 'ok' | 'excluded:<why>' | 'rejected:<ExcType>' (constructor said no)
    """
    import pytato as pt
    from vf import cexec
    viol = []
    terms_only = [t for _, t in outs]
    for t in terms_only:
        why = fragment_exclusion(t)
        if why:
            return {"outcome": "excluded:" + why, "violations": []}
    try:
        if prebuilt is not None:
            b, arrays = prebuilt
        else:
            b, arrays = build_outputs(outs, on_node)
    except (NotImplementedError, ValueError, TypeError, IndexError) as e:
        # constructor refuses: outside the fragment for value properties
        # (C03 decides whether the refusal itself is legitimate)
        return {"outcome": f"rejected:{type(e).__name__}", "violations": [],
                "reject": exc_sig("construct", e)}
    except Exception as e:  # noqa: BLE001
        return {"outcome": "construct-exception",
                "violations": [{"sig": exc_sig("construct", e), "msg": exc_msg("construct", e, outs)}]}
    try:
        dag = pt.transform.deduplicate(pt.make_dict_of_named_arrays(arrays))
    except Exception as e:  # noqa: BLE001
        return {"outcome": "dedup-exception",
                "violations": [{"sig": exc_sig("deduplicate", e), "msg": exc_msg("deduplicate", e, outs)}]}
    try:
        bp = pt.generate_loopy(dag, target=cexec.VerifCTarget(), **(gl_kwargs or {}))
    except Exception as e:  # noqa: BLE001
        return {"outcome": "codegen-exception",
                "violations": [{"sig": exc_sig("generate_loopy", e), "msg": exc_msg("generate_loopy", e, outs)}]}
    try:
        ck = bp.compiled()
    except Exception as e:  # noqa: BLE001
        sig = exc_sig("loopy-codegen/gcc", e)
        if sig["where"].startswith("cexec.py"):
            sig = attribute_exception(sig, outs)
        return {"outcome": "loopy-exception", "bp": bp,
                "violations": [{"sig": sig, "msg": exc_msg("loopy-codegen/gcc", e, outs)}]}
    k = bp.kernel
    # declared shape/dtype of kernel arguments
    results_all = []
    nrun = 0
    nexcl = 0
    for sizes in sizes_list:
        vals = valuations or valuations_for(terms_only)
        for val in vals:
            try:
                inputs, ref, ev = reference(outs, val, sizes)
            except Exception as e:  # noqa: BLE001
                return {"outcome": "numpy-rejects", "violations": [], "note": str(e)[:200]}
            if ev.excluded:
                nexcl += 1
                continue
            kw = dict(inputs)
            for sp in (sizes or {}):
                if sp in k.arg_dict:
                    kw[sp] = sizes[sp]
            try:
                got = bp(**kw)
            except Exception as e:  # noqa: BLE001
                viol.append({"sig": exc_sig("execute", e), "msg": exc_msg("execute", e, outs)})
                break
            nrun += 1
            if set(got) != {n for n, _ in outs}:
                viol.append({"sig": {"kind": "output-names"},
                             "msg": f"kernel outputs {sorted(got)} != requested {[n for n, _ in outs]}\nprogram: {outs}"})
                break
            for name, t in outs:
                exp_arr = arrays[name]
                g = got[name]
                # (1) declared shape/dtype == returned
                if check_decl:
                    decl_shape = tuple(_concrete(d, sizes) for d in exp_arr.shape)
                    if g.shape != decl_shape or g.dtype != exp_arr.dtype:
                        viol.append({"sig": {"kind": "declared-mismatch", "root": t[0]},
                                     "msg": f"output {name}: returned {g.shape}/{g.dtype} but expression declares {decl_shape}/{exp_arr.dtype}\nprogram: {outs}"})
                        continue
                r = ref[name]
                # value comparison: NumPy's values, in the dtype the expression declares
                bad = values.compare(g, r, scale=ev.scale, nred=ev.nred, check_dtype=False, min_eps=_min_eps(ev))
                if bad is None and g.shape != r.shape:
                    bad = f"shape {g.shape} vs numpy {r.shape}"
                if bad:
                    sig = {"kind": "wrong-value", "root": _root_sig(t)}
                    mixed = c_promotion_narrower(t, EINSUM_LIKE)      # (the operations whose operands are printed without casts)
                    if mixed is not None and values.compare(g, r, scale=ev.scale, nred=ev.nred, check_dtype=False,
                                                            min_eps=float(np.finfo(np.float32).eps)) is None:
                        # right to float32 precision, and an operation mixes >=32-bit integers with float32 (NumPy: float64)
                        sig = {"kind": "wrong-value", "cause": "int-and-float32-operands-evaluated-in-float", **mixed}
                    elif _fixed_by_c_precedence(bp, kw, name, r, ev):
                        sig = {"kind": "wrong-value", "cause": "loopy-c-printer-precedence"}
                    elif blame and on_node is None and prebuilt is None:
                        sig = blame_wrong_value(t, lambda o: run_c_program(o, sizes_list=sizes_list, blame=False))
                    viol.append({"sig": sig,
                                 "msg": f"output {name} valuation {val} sizes {sizes}: {bad}\nprogram: {outs}"})
            results_all.append((sizes, val, got))
            if viol:
                break
    oc = "ok" if nrun else ("all-valuations-excluded" if nexcl else "no-valuation")
    return {"outcome": oc if not viol else "violation", "violations": viol, "bp": bp,
            "arrays": arrays, "results": results_all, "nrun": nrun, "dag": dag, "builder": b}


def _fixed_by_c_precedence(bp, kw, name, ref, ev):
    """does the same loopy kernel give the right value once loopy's C printer
    parenthesises nested sub-expressions?  (attribution of a wrong value to the
    pymbolic/loopy printer's use of Python precedence)"""
    from vf import cexec
    try:
        with cexec.c_precedence_printer():
            ck = cexec.compile_tunit(bp.program)
        args = dict(bp.bound_arguments)
        args.update(kw)
        got = ck(**args)[name]
        return values.compare(got, ref, scale=ev.scale, nred=ev.nred, check_dtype=False,
                              min_eps=_min_eps(ev)) is None
    except Exception:  # noqa: BLE001
        return False


ARITH = ("add", "sub", "mul", "truediv", "floordiv", "mod", "pow")


def operand_descr(o):
    """coarse operand description for violation signatures: dtype kind for
    arrays (leaf or expression), py:/np: + kind for scalars, 'boolarith' for a
    bool-valued arithmetic sub-expression (NumPy gives those logical meaning)"""
    if T.is_scalar_term(o):
        v = T.scalar_value(o)
        return ("np:" if o[0] == "nps" else "py:") + np.asarray(v).dtype.kind
    try:
        k = T.np_shape_dtype(o)[1].kind
    except Exception:  # noqa: BLE001
        k = "?"
    if o[0] == "bin" and o[1] in ARITH and k == "b":
        return "boolarith"
    return k


def operand_descr_dtype(o):
    """exact operand dtype (C03 signatures)"""
    if T.is_scalar_term(o):
        v = T.scalar_value(o)
        return ("np:" if o[0] == "nps" else "py:") + np.asarray(v).dtype.name
    if o[0] == "a":
        o = o[1]
    try:
        return T.np_shape_dtype(o)[1].name
    except Exception:  # noqa: BLE001
        return "?"


def dtype_deviation(term):
    """first sub-term (post-order) whose dtype pytato infers differently from NumPy (a C03
    matter); None if there is none"""
    for o in T.all_subterms(term):
        if T.is_scalar_term(o) or o[0] in ("ph", "dw", "dwv", "dwalias", "s", "a"):
            continue
        try:
            ptdt = np.dtype(T.PtBuilder()(o).dtype)
            npdt = T.np_shape_dtype(o)[1]
        except Exception:  # noqa: BLE001
            continue
        if ptdt != npdt:
            return {"operand": _root_sig(o), "numpy": npdt.kind, "pytato": ptdt.kind}
    return None


EINSUM_LIKE = ("einsum", "matmul", "dot", "vdot")


def c_promotion_narrower(term, heads=None):
    """first sub-term (post-order) that combines an integer (>= 32 bit) operand with a float32 operand where NumPy's result
    type is float64: NumPy computes in float64, the C the operands are printed into computes in float (usual arithmetic
    conversions), unless something else in the printed expression happens to be a double.  None if there is none."""
    cache = {}
    for o in T.all_subterms(term):
        if T.is_scalar_term(o) or o[0] in ("ph", "dw", "dwv", "dwalias", "s", "a", "sp"):
            continue
        if heads is not None and o[0] not in heads:
            continue
        kids = [c for c in o[1:] if isinstance(c, list) and c and isinstance(c[0], str) and c[0] not in ("s", "a")
                and not T.is_scalar_term(c)]
        dts = []
        for c in kids:
            sd = _dtype_of(c, cache)
            if sd is not None:
                dts.append(np.dtype(sd[1]))
        # (other operands declared float64 do not help: constants such as eye() are printed as integer literals)
        if len(dts) >= 2 and any(d == np.float32 for d in dts) and any(d.kind in "iu" and d.itemsize >= 4 for d in dts) \
                and not any(d.kind == "c" for d in dts):
            return {"operand": _root_sig(o)}
    return None


def attribute_exception(sig, outs):
    """an exception in a program that contains a dtype-deviating sub-term is attributed to
    that deviation (e.g. xor of two pt.all(float) results, which pytato types float64)"""
    for _, t in outs:
        d = dtype_deviation(t)
        if d is not None and T.tkey(t) != "":
            return {"kind": "exception", "cause": "operand-dtype-deviates-from-numpy", **d}
    return sig


def blame_wrong_value(term, runner_fn):
    """smallest sub-term (post-order) that already computes a wrong value when
    run as its own program; gives violation signatures that name the operation
    and operand kinds instead of the whole composition."""
    subs = [s for s in T.all_subterms(term) if s[0] not in ("ph", "dw", "dwv", "s", "a", "py", "nps")]
    culprit = term
    for s in subs:
        if s is term or T.tkey(s) == T.tkey(term):
            continue
        try:
            r = runner_fn([["out", s]])
        except Exception:  # noqa: BLE001
            continue
        if any(v["sig"].get("kind") == "wrong-value" for v in r["violations"]):
            culprit = s
            break
    ops = [x for x in T.subterms(culprit) if x[0] not in ("s",)]
    ops = [x[1] if x[0] == "a" else x for x in ops]
    descr = [operand_descr(o) for o in ops]
    # an operand whose dtype pytato infers differently from NumPy (a C03 matter) changes the
    # meaning of the consumer: attribute the wrong value to that deviation
    for o in ops:
        if T.is_scalar_term(o) or o[0] in ("ph", "dw", "dwv", "dwalias"):
            continue
        try:
            ptdt = np.dtype(T.PtBuilder()(o).dtype)
            npdt = T.np_shape_dtype(o)[1]
        except Exception:  # noqa: BLE001
            continue
        if ptdt != npdt:
            return {"kind": "wrong-value", "cause": "operand-dtype-deviates-from-numpy",
                    "operand": _root_sig(o), "numpy": npdt.kind, "pytato": ptdt.kind}
    if "boolarith" in descr:
        return {"kind": "wrong-value", "cause": "bool-arithmetic-operand"}
    if culprit[0] == "logic" and any(d in ("py:f", "np:f", "py:c", "np:c") for d in descr):
        return {"kind": "wrong-value", "cause": "logical-op-with-nonbool-scalar"}
    return {"kind": "wrong-value", "op": _root_sig(culprit), "operands": descr}


def _root_sig(t):
    h = t[0]
    if h in ("bin", "cmp", "logic", "mm", "fn", "red"):
        return h + ":" + str(t[1])
    return h


def _concrete(d, sizes):
    if isinstance(d, (int, np.integer)):
        return int(d)
    # symbolic: evaluate pytato shape expression with size params
    from vf import dageval
    return int(dageval.eval_shape_component(d, sizes or {}))
