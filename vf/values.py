"""Valuation alphabet and comparison rules (DESIGN §4.4)."""
from __future__ import annotations

import zlib

import numpy as np

VALUATIONS = ("ramp", "small", "edge", "wide")
SPECIAL = "special"


def _seed(name):
    return zlib.crc32(name.encode()) & 0xFFFF


def make_input(name: str, shape, dtype, valuation: str) -> np.ndarray:
    """Deterministic content for input *name* under *valuation*."""
    dtype = np.dtype(dtype)
    n = int(np.prod(shape)) if len(shape) else 1
    k = _seed(name)
    i = np.arange(n, dtype=np.int64)
    if valuation == "ramp":
        # pairwise distinct, sign alternating, non-integral for floats
        base = (i + 1 + (k % 5)) * np.where((i + k) % 2 == 0, 1, -1)
        if dtype.kind == "b":
            v = ((i * 7 + k) % 3) != 0
        elif dtype.kind in "iu":
            v = base if dtype.kind == "i" else (i + 1 + (k % 5))
        elif dtype.kind == "f":
            v = base + 0.25 * ((k % 3) + 1)
        else:
            v = (base + 0.25) + 1j * (0.5 * ((i + k) % 4) - 0.75)
    elif valuation == "small":
        pal = np.array([1, 2, -1, 1, -1, 2, 1])
        v = pal[(i + k) % len(pal)]
        if dtype.kind == "b":
            v = v > 0
        elif dtype.kind == "u":
            v = np.abs(v)
        elif dtype.kind == "c":
            v = v + 1j * pal[(i + k + 3) % len(pal)]
    elif valuation == "edge":
        if dtype.kind == "b":
            v = (i + k) % 2 == 0
        elif dtype.kind == "i":
            pal = np.array([0, 1, -1, 3, -7, 100, -128, 0])
            v = pal[(i + k) % len(pal)]
        elif dtype.kind == "u":
            pal = np.array([0, 1, 3, 7, 100, 0, 255])
            v = pal[(i + k) % len(pal)]
        elif dtype.kind == "f":
            pal = np.array([0.0, -0.0, 1.0, -1.0, 1e-3, -2.5e3, 0.5, 1e6])
            v = pal[(i + k) % len(pal)]
        else:
            pal = np.array([0.0, 1.0, -1.0, 1j, -1j, 2.5 - 0.5j, 1e-3 + 1e3j])
            v = pal[(i + k) % len(pal)]
    elif valuation == "wide":
        # values that use the whole mantissa / more than 24 bits, so that an intermediate
        # computed in a narrower type than declared is visible
        if dtype.kind == "b":
            v = ((i * 5 + k) % 2) == 0
        elif dtype.kind in "iu":
            big = 16777217 + 3 * i + (k % 7)
            v = big * np.where((i + k) % 2 == 0, 1, -1) if dtype.kind == "i" else big
        elif dtype.kind == "f":
            v = ((i + 1 + (k % 5)) * np.where((i + k) % 2 == 0, 1, -1)) / 7.0 + 1.0 / 3.0
        else:
            v = ((i + 1 + (k % 5)) / 7.0 + 1.0 / 3.0) + 1j * ((i + 2) / 11.0 - 0.3)
    elif valuation == "special":
        if dtype.kind == "f":
            pal = np.array([1.0, np.nan, -2.0, np.inf, 0.5, -np.inf, 3.0])
            v = pal[(i + k) % len(pal)]
        elif dtype.kind == "c":
            pal = np.array([1.0 + 1j, np.nan, -2.0, 0.5j, 3.0])
            v = pal[(i + k) % len(pal)]
        else:
            return make_input(name, shape, dtype, "edge")
    else:
        raise ValueError(valuation)
    with np.errstate(all="ignore"):
        return np.array(np.asarray(v).astype(dtype).reshape(shape), order='C', copy=True)


def eps_of(dtype):
    dtype = np.dtype(dtype)
    if dtype.kind == "f":
        return float(np.finfo(dtype).eps)
    if dtype.kind == "c":
        return float(np.finfo(dtype).eps)
    return 0.0


def compare(got, ref, *, scale=1.0, nred=1, exact_dtype=None, rtol_mult=64.0,
            check_dtype=True, min_eps=0.0) -> str | None:
    """Return None when *got* matches *ref* else a description.

    shape exact; dtype exact (when check_dtype); bool/int exact; floats
    |a-b| <= rtol*max(|a|,|b|,scale) with rtol = 64*eps*(1+log2(nred));
    NaN==NaN, inf sign must match, -0.0 == 0.0."""
    got = np.asarray(got)
    ref = np.asarray(ref)
    if got.shape != ref.shape:
        return f"shape {got.shape} != expected {ref.shape}"
    if check_dtype and got.dtype != ref.dtype:
        return f"dtype {got.dtype} != expected {ref.dtype}"
    if got.size == 0:
        return None
    if ref.dtype.kind in "biu" and got.dtype.kind in "biu":
        if ref.dtype.kind == "b" or got.dtype.kind == "b":
            ok = np.array_equal(got.astype(bool), ref.astype(bool)) if (
                ref.dtype.kind == "b" and got.dtype.kind == "b") else np.array_equal(
                    got.astype(np.int64), ref.astype(np.int64))
        else:
            ok = np.array_equal(got.astype(object), ref.astype(object))
        if not ok:
            return f"values differ (exact): got {_brief(got)} expected {_brief(ref)}"
        return None
    # floating comparison in the wider of the two
    with np.errstate(all="ignore"):
        g = got.astype(np.complex128) if (got.dtype.kind == "c" or ref.dtype.kind == "c") else got.astype(np.float64)
        r = ref.astype(g.dtype)
        e = max(eps_of(got.dtype) if got.dtype.kind in "fc" else 0.0,
                eps_of(ref.dtype) if ref.dtype.kind in "fc" else 0.0, min_eps)
        rtol = rtol_mult * e * (1.0 + np.log2(max(nred, 1)))
        gn, rn = np.isnan(g), np.isnan(r)
        if not np.array_equal(gn, rn):
            return f"NaN pattern differs: got {_brief(got)} expected {_brief(ref)}"
        gi, ri = np.isinf(g), np.isinf(r)
        fin = ~(gn | gi | ri)
        if g.dtype.kind == "c":
            # infinities in complex results: require both non-finite at same spots
            if not np.array_equal(gi, ri):
                return f"inf pattern differs: got {_brief(got)} expected {_brief(ref)}"
        else:
            if not np.array_equal(gi, ri) or not np.array_equal(np.sign(g[gi]), np.sign(r[ri])):
                return f"inf pattern differs: got {_brief(got)} expected {_brief(ref)}"
        if not np.isfinite(scale):
            scale = 1.0
        tol = rtol * np.maximum(np.maximum(np.abs(g), np.abs(r)), scale) + 1e-300
        bad = fin & (np.abs(g - r) > tol)
        if bad.any():
            idx = tuple(int(x) for x in np.argwhere(bad)[0])
            return (f"values differ at {idx}: got {got[idx]!r} expected {ref[idx]!r} "
                    f"(rtol={rtol:.2g}, scale={scale:.3g}); got {_brief(got)} expected {_brief(ref)}")
    return None


def _brief(a):
    s = np.array2string(np.asarray(a).ravel()[:12], precision=6, separator=",")
    return s.replace("\n", "")
