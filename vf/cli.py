import argparse
import os
import sys

from vf import runner


def main():
    ap = argparse.ArgumentParser()
    ap.add_argument("prop")
    ap.add_argument("--tier", default=os.environ.get("VERIF_TIER", "quick"))
    ap.add_argument("--replay")
    ap.add_argument("--workers", type=int)
    a = ap.parse_args()
    seed = int(os.environ.get("VERIF_SEED", "0") or 0)
    tier = a.tier if a.tier in ("quick", "thorough") else "quick"
    mod = "vf.checks." + a.prop.lower()
    sys.exit(runner.run_check(mod, tier, seed, replay=a.replay, workers=a.workers))


if __name__ == "__main__":
    main()
