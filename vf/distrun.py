"""Running multi-rank pytato programs under the simulated MPI (C08, C09, C10).

Phase A (collectives): every rank runs the real find_distributed_partition /
number_distributed_tags / verify_distributed_partition against a replaying communicator; when a rank
reaches a collective whose answer is not scripted yet it raises NeedCollective, the engine computes the
collective's result from all ranks' contributions (the reduction order / bracketing is a choice point),
extends every script and re-runs.

Phase B (point to point): explicit-state breadth-first search.  A state is the tuple of per-rank
Waitsome-answer histories; a rank's local state is a deterministic function of the answers it got
(asserted by double replay), so equal histories have equal futures.  Successors: for a blocked rank, every
non-empty subset of its pending receives whose message has been sent in the current state.
"""
from __future__ import annotations

import itertools
import os
import pickle
import sys

import numpy as np

import vf
from vf import terms as T
from vf import values

FAKE = os.path.join(os.path.dirname(os.path.abspath(__file__)), "fakempi")


def install_fake_mpi():
    if FAKE not in sys.path:
        sys.path.insert(0, FAKE)
    import pyopencl.array as cla
    cla.to_device = lambda queue, buf, allocator=None: np.array(buf, copy=True)
    from mpi4py import MPI
    return MPI


# --------------------------------------------------------------------------
# building

def rank_inputs(prog, r, valuation):
    """one array per placeholder name of the rank's terms (data differ between ranks and between names)"""
    res = {}
    for _n, t in rank_outs(prog, r):
        for name, (shape, dtype) in T.inputs_of(t).items():
            res[name] = values.make_input(f"{name}@rank{r}", tuple(shape), dtype, valuation)
    res.setdefault("x", values.make_input(f"x@rank{r}", (4,), "float64", valuation))
    return res


def build_rank(prog, r):
    """-> (builder, DictOfNamedArrays) for rank r (fresh objects on every call)"""
    import pytato as pt
    b = T.PtBuilder()
    arrays = {}
    for name, t in prog["ranks"][r]["outs"] if isinstance(prog["ranks"], dict) and r in prog["ranks"] else prog["ranks"][str(r)]["outs"]:
        arrays[name] = b(t)
    return b, pt.make_dict_of_named_arrays(arrays)


def rank_outs(prog, r):
    rk = prog["ranks"]
    return rk[r]["outs"] if r in rk else rk[str(r)]["outs"]


def global_reference(prog, valuation):
    """NumPy evaluation of the unpartitioned global data-flow graph: receives resolved to the matching
    send payloads (independent of pytato)"""
    R = prog["R"]
    sends = {}      # (src, dst, tagkey) -> payload term
    for r in range(R):
        for _n, t in rank_outs(prog, r):
            for s in T.all_subterms(t):
                if s[0] == "send":
                    sends.setdefault((r, s[2], T.tkey(s[3])), []).append(s[1])
    evs = {}
    inprogress = set()

    def ev_for(r):
        if r not in evs:
            e = T.NpEval(rank_inputs(prog, r, valuation))

            def resolver(src, tag, r=r):
                k = (src, r, T.tkey(tag))
                if k not in sends:
                    raise KeyError(f"no send for {k}")
                if k in inprogress:
                    raise RecursionError(f"cyclic data flow through {k}")
                inprogress.add(k)
                try:
                    return ev_for(src)(sends[k][0])
                finally:
                    inprogress.discard(k)
            e.recv_resolver = resolver
            evs[r] = e
        return evs[r]
    out = {}
    for r in range(R):
        out[r] = {n: np.asarray(ev_for(r)(t)) for n, t in rank_outs(prog, r)}
    return out


# --------------------------------------------------------------------------
# phase A

class RankFailed(Exception):
    def __init__(self, rank, exc):
        super().__init__(f"rank {rank}: {type(exc).__name__}: {exc}")
        self.rank, self.exc = rank, exc


def reduction_orders(n):
    """all (order, bracketing) ways to combine n operands with a binary commutative op: as nested tuples"""
    if n == 1:
        return [0]
    res = []

    def trees(items):
        if len(items) == 1:
            return [items[0]]
        out = []
        for k in range(1, len(items)):
            for l in trees(items[:k]):
                for r in trees(items[k:]):
                    out.append((l, r))
        return out
    for perm in itertools.permutations(range(n)):
        res += trees(list(perm))
    return res


def apply_tree(tree, vals, fn):
    if isinstance(tree, tuple):
        return fn(apply_tree(tree[0], vals, fn), apply_tree(tree[1], vals, fn), None)
    return vals[tree]


def run_collective_phase(R, fn, chooser=None, max_rounds=40):
    """fn(rank, comm) -> result.  Returns {"status": {rank: ("ok", res) | ("exc", e) | ("stuck", kind)},
    "log": [...collectives...]}"""
    MPI = install_fake_mpi()
    scripts = [[] for _ in range(R)]
    log = []
    for _round in range(max_rounds):
        status, needs = {}, {}
        for r in range(R):
            comm = MPI.Comm(r, R, coll_script=scripts[r])
            try:
                status[r] = ("ok", fn(r, comm))
            except MPI.NeedCollective as n:
                needs[r] = n
            except Exception as e:  # noqa: BLE001
                status[r] = ("exc", e)
        if not needs:
            return {"status": status, "log": log}
        if len(needs) < R:
            # some ranks returned / raised while others wait in a collective: those are stuck (an MPI job
            # would be aborted if a peer raised; if a peer *returned*, it is a genuine hang)
            for r, n in needs.items():
                status[r] = ("stuck", n.kind)
            return {"status": status, "log": log}
        kinds = {n.kind for n in needs.values()}
        if len(kinds) != 1:
            for r, n in needs.items():
                status[r] = ("stuck", "mismatched-collectives:" + ",".join(sorted(kinds)))
            return {"status": status, "log": log}
        kind = kinds.pop()
        if kind == "allreduce":
            op = needs[0].info["op"]
            payloads = [pickle.loads(pickle.dumps(needs[r].payload)) for r in range(R)]
            orders = reduction_orders(R)
            c = chooser.choose(len(orders), f"allreduce-order[{R}]") if chooser is not None else 0
            res = apply_tree(orders[c], payloads, op.fn)
            results = [pickle.loads(pickle.dumps(res)) for _ in range(R)]
            log.append(("allreduce", orders[c]))
        elif kind == "bcast":
            root = needs[0].info["root"]
            data = pickle.dumps(needs[root].payload)
            results = [needs[r].payload if r == root else pickle.loads(data) for r in range(R)]
            log.append(("bcast", needs[root].payload))
        elif kind == "gather":
            root = needs[0].info["root"]
            gathered = [needs[r].payload if r == root else pickle.loads(pickle.dumps(needs[r].payload)) for r in range(R)]
            results = [gathered if r == root else None for r in range(R)]
            log.append(("gather", None))
        elif kind == "barrier":
            results = [None] * R
            log.append(("barrier", None))
        else:
            raise RuntimeError(kind)
        for r in range(R):
            scripts[r].append((kind, results[r]))
    raise RuntimeError("collective phase did not converge")


def partition_all(prog, chooser=None, number_tags=True, verify=True, collect=None):
    """run find_distributed_partition (+number_distributed_tags, +verify) on every rank"""
    import pytato as pt
    R = prog["R"]

    def fn(r, comm):
        b, dag = build_rank(prog, r)
        next_tag = None
        part0 = pt.find_distributed_partition(comm, dag)
        part = part0
        if number_tags:
            part, next_tag = pt.number_distributed_tags(comm, part0, base_tag=42)
        if verify:
            pt.verify_distributed_partition(comm, part)
        return {"partition": part, "unnumbered": part0, "dag": dag, "next_tag": next_tag, "builder": b}
    return run_collective_phase(R, fn, chooser)


# --------------------------------------------------------------------------
# phase B

class PartProgram:
    """prg_per_partition entry backed by the reference evaluator of name_to_output"""

    def __init__(self, partition, part):
        self.partition, self.part = partition, part

    def __call__(self, queue, allocator=None, **inputs):
        from vf import dageval
        ev = dageval.DagEval(inputs)
        res = {}
        for name in sorted(self.part.output_names):
            res[name] = np.array(ev(self.partition.name_to_output[name]), copy=True)
        return None, res


class CPartProgram:
    """prg_per_partition entry backed by the code pytato generates for the part (loopy C target + gcc)"""

    def __init__(self, bound):
        self.bound = bound

    def __call__(self, queue, allocator=None, **inputs):
        return None, {k: np.array(v, copy=True) for k, v in self.bound(**inputs).items()}


def make_part_programs(partition, mode="ref"):
    """mode 'ref': reference evaluator of name_to_output; mode 'c': pytato's own generate_code_for_partition with the
    harness's C target substituted for the (absent) OpenCL one"""
    if mode == "ref":
        return {pid: PartProgram(partition, part) for pid, part in partition.parts.items()}
    import pytato as pt
    from pytato.distributed.execute import generate_code_for_partition
    from vf import cexec
    orig = pt.generate_loopy
    pt.generate_loopy = lambda d, **kw: orig(d, target=cexec.VerifCTarget(), **kw)
    try:
        bound = generate_code_for_partition(partition)
    finally:
        pt.generate_loopy = orig
    for b in bound.values():
        b.compiled()
    return {pid: CPartProgram(b) for pid, b in bound.items()}


def run_rank(MPI, r, R, partition, inputs, wait_script, prgs=None):
    """one replay of rank r's executor -> dict(status, pending, sends, posted, outputs|exc)"""
    import pytato as pt
    comm = MPI.Comm(r, R, wait_script=wait_script)
    if prgs is None:
        prgs = make_part_programs(partition)
    try:
        out = pt.execute_distributed_partition(partition, prgs, None, comm, input_args=dict(inputs))
        return {"status": "done", "outputs": out, "sends": comm.sends, "posted": comm.posted, "waited": comm.waited}
    except MPI.Blocked as b:
        return {"status": "blocked", "pending": b.pending, "sends": comm.sends, "posted": comm.posted}
    except MPI.Livelock as e:
        return {"status": "livelock", "exc": e, "sends": comm.sends, "posted": comm.posted}
    except Exception as e:  # noqa: BLE001
        return {"status": "exc", "exc": e, "sends": comm.sends, "posted": comm.posted}


def explore_schedules(R, partitions, inputs_per_rank, max_states=20000, rendezvous=True, prgs_per_rank=None):
    """explicit-state BFS over Waitsome-answer histories.  Returns dict(states, transitions, terminals=[...],
    deadlocks=[...], errors=[...], capped)"""
    MPI = install_fake_mpi()
    cache = {}

    def run(r, hist):
        k = (r, hist)
        if k not in cache:
            script = []
            # data for the answers comes from the senders' sends (computed below, passed in hist entries)
            for ans in hist:
                script.append({key: thaw(data) for key, data in ans})
            cache[k] = run_rank(MPI, r, R, partitions[r], inputs_per_rank[r], script,
                                prgs=None if prgs_per_rank is None else prgs_per_rank[r])
        return cache[k]
    init = tuple(() for _ in range(R))
    seen = {keyof(init)}
    frontier = [init]
    nstates, ntrans = 1, 0
    terminals, deadlocks, errors = [], [], []
    determinism_checked = False
    capped = False
    while frontier:
        nxt = []
        for state in frontier:
            runs = [run(r, state[r]) for r in range(R)]
            if not determinism_checked:
                # the same script must reproduce the same observable behaviour
                cache.pop((0, state[0]), None)
                again = run(0, state[0])
                if (again["status"], [(d, t) for d, t, _ in again["sends"]]) != (runs[0]["status"], [(d, t) for d, t, _ in runs[0]["sends"]]):
                    errors.append({"kind": "harness-nondeterminism", "msg": "rank 0 replay differs"})
                determinism_checked = True
            bad = [r for r in range(R) if runs[r]["status"] in ("exc", "livelock")]
            if bad:
                for r in bad:
                    errors.append({"kind": runs[r]["status"], "rank": r, "exc": runs[r]["exc"], "state": describe(state)})
                continue
            # messages in the network: everything sent so far, minus what the receiver already got
            sent = {}
            for r in range(R):
                for (dest, tag, data) in runs[r]["sends"]:
                    sent.setdefault((r, dest, tag), []).append(data)
            succ = []
            for r in range(R):
                if runs[r]["status"] != "blocked":
                    continue
                got = set()
                for ans in state[r]:
                    got |= {key for key, _ in ans}
                avail = []
                for (src, tag) in runs[r]["pending"]:
                    if (src, r, tag) in sent and (src, tag) not in got:
                        avail.append((src, tag))
                for k in range(1, len(avail) + 1):
                    for S in itertools.combinations(sorted(avail, key=repr), k):
                        ans = tuple((key, freeze(sent[(key[0], r, key[1])][0])) for key in S)
                        ns = state[:r] + (state[r] + (ans,),) + state[r + 1:]
                        succ.append(ns)
            if not succ:
                if all(runs[r]["status"] == "done" for r in range(R)):
                    # rendezvous: every send must have been matched by a posted receive on its destination
                    unmatched = []
                    if rendezvous:
                        for r in range(R):
                            for (dest, tag, _d) in runs[r]["sends"]:
                                if dest >= R or (r, tag) not in runs[dest]["posted"]:
                                    unmatched.append((r, dest, tag))
                    if unmatched:
                        deadlocks.append({"state": describe(state), "why": f"sends never matched by a receive: {unmatched} "
                                          "(a synchronous send would wait forever)"})
                    else:
                        terminals.append({"state": state, "outputs": [runs[r]["outputs"] for r in range(R)]})
                else:
                    stuck = {r: runs[r].get("pending") for r in range(R) if runs[r]["status"] == "blocked"}
                    deadlocks.append({"state": describe(state), "why": f"ranks blocked with no deliverable message: {stuck}"})
                continue
            for ns in succ:
                ntrans += 1
                k = keyof(ns)
                if k not in seen:
                    seen.add(k)
                    nstates += 1
                    nxt.append(ns)
                    if nstates >= max_states:
                        capped = True
            if capped:
                break
        if capped:
            break
        frontier = nxt
    return {"states": nstates, "transitions": ntrans, "terminals": terminals, "deadlocks": deadlocks,
            "errors": errors, "capped": capped}


def freeze(a):
    a = np.asarray(a)
    return (a.dtype.str, a.shape, a.tobytes())


def keyof(state):
    return tuple(tuple(tuple(sorted((repr(key), d[2]) for key, d in ans)) for ans in h) for h in state)


def describe(state):
    return [[sorted(repr(key) for key, _ in ans) for ans in h] for h in state]


def thaw(f):
    return np.frombuffer(f[2], dtype=np.dtype(f[0])).reshape(f[1]).copy()
