"""Tag alphabet used by the tag-placement checks (C05, C07, C13, C20)."""
from __future__ import annotations

from dataclasses import dataclass

from pytools.tag import Tag, UniqueTag


@dataclass(frozen=True)
class UserArrayTag(Tag):
    label: str = "u"


@dataclass(frozen=True)
class UserAxisTag(Tag):
    label: str = "ax"


@dataclass(frozen=True)
class UserRednTag(Tag):
    label: str = "r"


def apply(ary, spec):
    """spec: ["stored"] | ["inlined"] | ["subst"] | ["prefix", s] | ["named", s]
    | ["user", s] | ["axis", i, s] | ["redn", s]"""
    from pytato import tags as pttags
    k = spec[0]
    if k == "stored":
        return ary.tagged(pttags.ImplStored())
    if k == "inlined":
        return ary.tagged(pttags.ImplInlined())
    if k == "subst":
        from pytato.target.loopy import ImplSubstitution
        return ary.tagged(ImplSubstitution())
    if k == "prefix":
        return ary.tagged(pttags.PrefixNamed(spec[1]))
    if k == "named":
        return ary.tagged(pttags.Named(spec[1]))
    if k == "user":
        return ary.tagged(UserArrayTag(spec[1]))
    if k == "axis":
        return ary.with_tagged_axis(spec[1], UserAxisTag(spec[2]))
    if k == "redn":
        # tag every reduction descriptor of an index lambda
        import pytato as pt
        if isinstance(ary, pt.IndexLambda) and ary.var_to_reduction_descr:
            for v in sorted(ary.var_to_reduction_descr):
                ary = ary.with_tagged_reduction(v, UserRednTag(spec[1]))
        return ary
    raise ValueError(spec)
