import sys, json
from vf import progcheck
outs = json.loads(sys.argv[1])
r = progcheck.run_c_program(outs, blame=False)
print(r["outcome"])
for v in r["violations"]:
    print(v["sig"]); print(v["msg"][:1500])
if "bp" in r and len(sys.argv) > 2:
    print(r["bp"].compiled().code.split("void _pt_kernel")[1])
