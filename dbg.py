"""debug helper: run cases of a check in-process and tabulate outcomes per family"""
import sys, collections, json
from vf import runner
import importlib
mod = importlib.import_module("vf.checks." + sys.argv[1])
tier = sys.argv[2] if len(sys.argv) > 2 else "quick"
filt = sys.argv[3] if len(sys.argv) > 3 else None
cases = mod.enumerate_cases(tier, 0)
if filt:
    cases = [c for c in cases if filt in json.dumps(c)]
step = int(sys.argv[4]) if len(sys.argv) > 4 else 1
tab = collections.defaultdict(collections.Counter)
ex = {}
for c in cases[::step]:
    r = runner.safe_run_case(mod, c)
    fam = c.get("fam", "?")
    tab[r["outcome"] if isinstance(r["outcome"], str) else "multi"][fam] += 1
    for v in r["violations"]:
        ex.setdefault(json.dumps(v["sig"], sort_keys=True), (c, v["msg"]))
for oc, fams in tab.items():
    print("==", oc, sum(fams.values()), dict(fams.most_common(40)))
for s, (c, m) in ex.items():
    print("--", s); print("  ", json.dumps(c)[:400]); print("  ", m[:700].replace("\n", "\n   "))
