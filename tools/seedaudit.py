#!/venv/bin/python
"""tools/seedaudit.py [--only=Cxx] [--jobs=2] [--extra]
Re-runs every kept seeded change (seeded/<id>/patch.diff) against the current quick check of the property it breaks
(with --extra also against the other checks recorded in its meta.json): scratch worktree of /repo HEAD under /var/tmp,
VERIF_REPO pointing at it, removed afterwards.  Writes seeded/AUDIT.json and prints one line per seed.
Exit 1 if a seed is not detected by its own property's check."""
import concurrent.futures
import glob
import json
import os
import shutil
import subprocess
import sys
import time

V = os.path.dirname(os.path.dirname(os.path.abspath(__file__)))
only = [a.split("=")[1] for a in sys.argv[1:] if a.startswith("--only=")]
jobs = int(([a.split("=")[1] for a in sys.argv[1:] if a.startswith("--jobs=")] or ["2"])[0])
extra = "--extra" in sys.argv


def audit(d):
    sid = os.path.basename(d)
    meta = json.load(open(os.path.join(d, "meta.json")))
    prop = meta["breaks_property"]
    checks = [prop] + ([c for c in meta.get("checks_run", {}) if c != prop] if extra else [])
    wt = f"/var/tmp/audit-{sid}-{os.getpid()}"
    out = wt + "-out"
    res = {"seed": sid, "property": prop}
    subprocess.run(["git", "-C", "/repo", "worktree", "add", "-q", "--detach", wt, "HEAD"], check=True)
    try:
        r = subprocess.run(["git", "-C", wt, "apply", os.path.join(d, "patch.diff")], capture_output=True, text=True)
        if r.returncode:
            r = subprocess.run(["git", "-C", wt, "apply", "--3way", os.path.join(d, "patch.diff")], capture_output=True, text=True)
        res["applies"] = r.returncode == 0
        if res["applies"]:
            for c in checks:
                t0 = time.time()
                env = dict(os.environ, VERIF_REPO=wt, VERIF_OUT_DIR=out)
                rr = subprocess.run([os.path.join(V, "check"), c], env=env, capture_output=True, text=True, cwd=V)
                nv = sum(1 for l in rr.stdout.splitlines() if l.startswith("VIOLATION"))
                sigs = [l.strip()[:200] for l in rr.stdout.splitlines() if l.strip().startswith("signature=")][:3]
                res[c] = {"rc": rr.returncode, "violations": nv, "wall_s": round(time.time() - t0, 1), "signatures": sigs}
    finally:
        subprocess.run(["git", "-C", "/repo", "worktree", "remove", "--force", wt])
        shutil.rmtree(out, ignore_errors=True)
    res["detected_by_own_check"] = bool(res.get(prop, {}).get("rc") == 1 and res.get(prop, {}).get("violations", 0) > 0)
    print(f"{sid}: applies={res.get('applies')} " + " ".join(f"{c}:{'DETECTED' if res[c]['rc'] == 1 and res[c]['violations'] else 'missed'}"
                                                              for c in checks if c in res), flush=True)
    return res


def main():
    dirs = sorted(d for d in glob.glob(os.path.join(V, "seeded", "*")) if os.path.exists(os.path.join(d, "meta.json")))
    if only:
        dirs = [d for d in dirs if any(os.path.basename(d).startswith(o) for o in only)]
    with concurrent.futures.ThreadPoolExecutor(jobs) as ex:
        results = list(ex.map(audit, dirs))
    head = subprocess.run(["git", "-C", "/repo", "rev-parse", "--short", "HEAD"], capture_output=True, text=True).stdout.strip()
    p = os.path.join(V, "seeded", "AUDIT.json")
    old = {}
    if os.path.exists(p) and only:
        old = {r["seed"]: r for r in json.load(open(p)).get("results", [])}
    for r in results:
        old[r["seed"]] = r
    json.dump({"repo_head": head, "tier": "quick", "results": [old[k] for k in sorted(old)] if only else results}, open(p, "w"), indent=1)
    missed = [r["seed"] for r in results if not r["detected_by_own_check"]]
    print(f"{len(results)} seeds, {len(results) - len(missed)} detected by their own property's check; missed: {missed}")
    sys.exit(1 if missed else 0)


if __name__ == "__main__":
    main()
