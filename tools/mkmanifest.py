#!/venv/bin/python
"""regenerate MANIFEST.json from the check modules present in vf/checks and the
table below; validates against the schema."""
import importlib, json, os, sys
sys.path.insert(0, os.path.dirname(os.path.dirname(os.path.abspath(__file__))))
import vf  # noqa
ALL = [f"C{i:02d}" for i in range(1, 21)]
NOT_YET = {}
LEVEL_TEXT = {}
checks, na = [], []
for pid in ALL:
    try:
        mod = importlib.import_module("vf.checks." + pid.lower())
    except ModuleNotFoundError:
        na.append({"property_id": pid, "reason": NOT_YET.get(pid, "check not built yet (work in progress; see DESIGN.md section 5 for the planned exhaustive exploration)")})
        continue
    checks.append({
        "property_id": pid,
        "quick_cmd": f"./check {pid} --tier quick",
        "thorough_cmd": f"./check {pid} --tier thorough",
        "evidence_file": f"/verif/evidence/{pid}.json",
        "replay_cmd_template": f"./check {pid} --replay {{path}}",
        "engine": "vf",
        "level_claimed": {"category": mod.LEVEL, "text": getattr(mod, "LEVEL_TEXT", mod.TECHNIQUE),
                          "design_ref": f"DESIGN.md section 5, {pid}"},
        "level_note": "; ".join(mod.ASSUMPTIONS),
        "technique": mod.TECHNIQUE,
    })
man = {
    "version": 1,
    "setup_cmd": "true",
    "hooks": {"guard": "PYTATO_VERIF",
              "enable": "no hooks are needed: every check imports /repo's working tree directly (VERIF_REPO overrides the path); the guard name is reserved",
              "baseline_off_cmd": "cd /repo && /venv/bin/python -m pytest -ra -q -p no:cacheprovider --timeout=900 --continue-on-collection-errors",
              "source_commits": [], "add_only": True},
    "engines": [{"name": "vf", "path": "/verif/vf", "serves_properties": [c["property_id"] for c in checks],
                 "kind_free_text": "hand-written explicit-state / bounded-exhaustive explorer for Python: deterministic enumeration of programs, parameters, tag placements, schedules and faults; every case executed on the real implementation in sharded fresh interpreter processes and compared against NumPy-level reference models"}],
    "checks": checks,
    "not_applicable": na,
    "notes": "All checks: ./check <ID> [--tier quick|thorough] [--replay FILE]; exit 1 + 'VIOLATION property=<id> replay=<path>' on a violation not listed in known_findings.json; listed open findings print 'KNOWN-FINDING:' and do not affect the exit code.",
}
try:
    import jsonschema
    jsonschema.validate(man, json.load(open("/root/.vp/MANIFEST.schema.json")))
except ImportError:
    print("(jsonschema not importable: manifest not validated)")
json.dump(man, open(os.path.join(vf.VERIF_DIR, "MANIFEST.json"), "w"), indent=1)
print("manifest:", [c["property_id"] for c in checks], "n/a:", len(na))
