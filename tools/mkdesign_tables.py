#!/venv/bin/python
"""Regenerates the measured tables of DESIGN.md (between BEGIN/END markers) from evidence/*.json and seeded/*/meta.json."""
import glob
import json
import os
import re

V = os.path.dirname(os.path.dirname(os.path.abspath(__file__)))


def evidence_table():
    rows = ["| property | level | tier/seed | cases evaluated | distinct non-trivial | states | transitions | known findings met | wall |",
            "|---|---|---|---|---|---|---|---|---|"]
    for p in sorted(glob.glob(os.path.join(V, "evidence", "C*.json"))):
        e = json.load(open(p))
        c = e.get("coverage", {})
        rows.append(f"| {e['property_id']} | {e.get('level')} | {e.get('tier')}/{e.get('seed')} | {c.get('evaluations', '')} | "
                    f"{c.get('distinct_nontrivial', '')} | {c.get('states', '')} | {c.get('transitions', '')} | "
                    f"{len(c.get('known_findings_hit', []) or [])} | {e.get('wall_s', '')} s |")
    return "\n".join(rows)


def seed_table():
    audit = {}
    ap = os.path.join(V, "seeded", "AUDIT.json")
    head = "?"
    if os.path.exists(ap):
        a = json.load(open(ap))
        head = a.get("repo_head")
        audit = {r["seed"]: r for r in a.get("results", [])}
    rows = [f"(last audit: `tools/seedaudit.py` at /repo {head}; ✓ = the quick check exits 1 with a VIOLATION line on the patched tree)", "",
            "| seeded change | breaks | own check (last audit) | other checks run when it was kept | baseline passes with it | demo clean / patched |",
            "|---|---|---|---|---|---|"]
    for d in sorted(glob.glob(os.path.join(V, "seeded", "*"))):
        mp = os.path.join(d, "meta.json")
        if not os.path.exists(mp):
            continue
        m = json.load(open(mp))
        sid = os.path.basename(d)
        prop = m.get("breaks_property")
        ran = ", ".join(f"{c}{'✓' if c in m.get('detected_by', []) else '✗'}" for c in m.get("checks_run", {}) if c != prop) or "—"
        au = audit.get(sid, {})
        own = "✓" if au.get("detected_by_own_check") else ("✗" if au else "not audited")
        cf = m.get("confirmed", {})
        rows.append(f"| {sid} | {prop} | {own} | {ran} | {cf.get('baseline_80_tests_pass_with_patch')} | "
                    f"{cf.get('demo_exit_on_clean_tree')} / {cf.get('demo_exit_on_patched_tree')} |")
    return "\n".join(rows)


def main():
    p = os.path.join(V, "DESIGN.md")
    s = open(p).read()
    for name, fn in (("evidence-table", evidence_table), ("seed-table", seed_table)):
        s = re.sub(rf"<!-- BEGIN:{name} -->.*?<!-- END:{name} -->", lambda m: f"<!-- BEGIN:{name} -->\n{fn()}\n<!-- END:{name} -->", s, flags=re.S)
    open(p, "w").write(s)


if __name__ == "__main__":
    main()
