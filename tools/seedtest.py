#!/venv/bin/python
"""tools/seedtest.py <seed dir with patch.diff [demo.py]> <check ids...> [--baseline] [--tier quick]
Applies the patch to a scratch worktree of /repo (never to /repo itself), runs the
demo on both trees, optionally the baseline, then the named checks with VERIF_REPO
pointing at the scratch tree; prints one summary line per step."""
import json, os, shutil, subprocess, sys, time
args = [a for a in sys.argv[1:] if not a.startswith("--")]
sd, checks = os.path.abspath(args[0]), args[1:]
tier = "quick"
for a in sys.argv[1:]:
    if a.startswith("--tier="):
        tier = a.split("=")[1]
name = "mut-" + "-".join(sd.rstrip("/").split("/")[-2:]) + f"-{os.getpid()}"
wt = f"/var/tmp/{name}"
out = f"/var/tmp/{name}-out"
V = os.path.dirname(os.path.dirname(os.path.abspath(__file__)))
res = {"seed": sd}
subprocess.run(["git", "-C", "/repo", "worktree", "add", "-q", "--detach", wt, "HEAD"], check=True)
try:
    r = subprocess.run(["git", "-C", wt, "apply", os.path.join(sd, "patch.diff")], capture_output=True, text=True)
    if r.returncode:
        r = subprocess.run(["git", "-C", wt, "apply", "--3way", os.path.join(sd, "patch.diff")], capture_output=True, text=True)
    res["applies"] = r.returncode == 0
    if not res["applies"]:
        print("PATCH DOES NOT APPLY", r.stderr)
    else:
        demo = os.path.join(sd, "demo.py")
        if os.path.exists(demo):
            env = dict(os.environ, PYTHONDONTWRITEBYTECODE="1")
            r1 = subprocess.run(["/venv/bin/python", demo], env=dict(env, PYTHONPATH="/repo"), capture_output=True, cwd="/var/tmp", timeout=600)
            r2 = subprocess.run(["/venv/bin/python", demo], env=dict(env, PYTHONPATH=wt), capture_output=True, cwd="/var/tmp", timeout=600)
            res["demo_clean_rc"], res["demo_mutant_rc"] = r1.returncode, r2.returncode
        if "--baseline" in sys.argv:
            r = subprocess.run([os.path.join(V, "tools/baseline.py"), wt, "--par"], capture_output=True, text=True)
            res["baseline_ok"] = r.returncode == 0
            if r.returncode:
                print(r.stdout[-1500:])
        for c in checks:
            t0 = time.time()
            env = dict(os.environ, VERIF_REPO=wt, VERIF_OUT_DIR=out)
            r = subprocess.run([os.path.join(V, "check"), c, "--tier", tier], env=env, capture_output=True, text=True, cwd=V)
            vl = [l for l in r.stdout.splitlines() if l.startswith("VIOLATION")]
            sigs = [l.strip()[:260] for l in r.stdout.splitlines() if l.strip().startswith("signature=")]
            res[c] = {"rc": r.returncode, "violations": len(vl), "wall": round(time.time() - t0, 1), "sigs": sigs[:4]}
            if "--show" in sys.argv:
                print(r.stdout[-3000:])
finally:
    subprocess.run(["git", "-C", "/repo", "worktree", "remove", "--force", wt])
    shutil.rmtree(out, ignore_errors=True)
keep = [a.split("=")[1] for a in sys.argv[1:] if a.startswith("--keep=")]
if keep:
    prop = [a.split("=")[1] for a in sys.argv[1:] if a.startswith("--prop=")][0]
    dst = os.path.join(V, "seeded", keep[0])
    os.makedirs(dst, exist_ok=True)
    for f in ("patch.diff", "demo.py", "README.md"):
        if os.path.exists(os.path.join(sd, f)):
            shutil.copy(os.path.join(sd, f), os.path.join(dst, f))
    needs = ""
    if os.path.exists(os.path.join(sd, "README.md")):
        needs = open(os.path.join(sd, "README.md")).read()[:1500]
    meta = {"id": keep[0], "breaks_property": prop, "source": "independent sub-agent given only the property text and a scratch worktree",
            "needs_to_manifest": needs,
            "confirmed": {"patch_applies_to_repo_HEAD": res.get("applies"), "baseline_80_tests_pass_with_patch": res.get("baseline_ok"),
                          "demo_exit_on_clean_tree": res.get("demo_clean_rc"), "demo_exit_on_patched_tree": res.get("demo_mutant_rc")},
            "checks_run": {c: res[c] for c in checks},
            "detected_by": [c for c in checks if res[c]["rc"] == 1 and res[c]["violations"] > 0],
            "ran": f"tools/seedtest.py <dir> {' '.join(checks)} --baseline --tier={tier} (scratch worktree of /repo HEAD, VERIF_REPO pointing at it)"}
    json.dump(meta, open(os.path.join(dst, "meta.json"), "w"), indent=1)
print(json.dumps(res, indent=1))
