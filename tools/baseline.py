#!/venv/bin/python
"""run the repository's baseline (guard off) in REPO (default /repo) and compare
with BASELINE.json's stable_pass; exit 0 iff every stable test still passes."""
import json, os, subprocess, sys, tempfile
import xml.etree.ElementTree as ET
args = [a for a in sys.argv[1:] if not a.startswith("--")]
repo = args[0] if args else "/repo"
base = json.load(open("/root/.vp/BASELINE.json"))
fd, xml = tempfile.mkstemp(suffix=".xml", dir="/var/tmp"); os.close(fd)
env = dict(os.environ); env.pop("PYTATO_VERIF", None); env["PYTHONDONTWRITEBYTECODE"] = "1"
env["PYTHONPATH"] = repo
subprocess.run(["/venv/bin/python", "-m", "pytest", "-q", "-p", "no:cacheprovider", "--timeout=900",
                "--continue-on-collection-errors", "-x" if False else "-q", f"--junitxml={xml}"] + (["-n", "8"] if "--par" in sys.argv else []),
               cwd=repo, env=env, stdout=subprocess.DEVNULL, stderr=subprocess.DEVNULL)
passed = set()
for tc in ET.parse(xml).getroot().iter("testcase"):
    if not list(tc):
        passed.add(f"{tc.get('classname')}::{tc.get('name')}")
os.unlink(xml)
missing = [t for t in base["stable_pass"] if t not in passed]
print(f"baseline: {len(base['stable_pass']) - len(missing)}/{len(base['stable_pass'])} stable tests pass")
for m in missing:
    print("  MISSING", m)
sys.exit(1 if missing else 0)
