#!/venv/bin/python
"""tools/replaydir.py <check id> <dir with replay json files>: re-run every replay case in-process and
report which still violate (used to re-validate after harness / repo changes)"""
import sys, os, json, glob, importlib
sys.path.insert(0, os.path.dirname(os.path.dirname(os.path.abspath(__file__))))
from vf import runner
mod = importlib.import_module("vf.checks." + sys.argv[1].lower())
known = [k for k in runner.load_known() if k["property"] == mod.PROPERTY and k.get("status", "open") == "open"]
if hasattr(mod, "setup_worker"):
    mod.setup_worker()
for f in sorted(glob.glob(os.path.join(sys.argv[2], "*.json"))):
    d = json.load(open(f))
    if "case" not in d:
        continue
    r = runner.safe_run_case(mod, d["case"])
    new = [v for v in r["violations"] if not any(runner.sig_matches(k["signature"], v["sig"]) for k in known)]
    print(os.path.basename(f), "was", json.dumps(d["signature"])[:150], "->", r["outcome"] if isinstance(r["outcome"], str) else "multi",
          "NEW:" + json.dumps([v["sig"] for v in new])[:300] if new else "quiet")
